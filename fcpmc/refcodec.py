"""Reference model of the canonical FCP wire format. No imports from fcp.

A type environment maps names to declarations:
    env.structs[name] = [(fname, fid, T), ...]   (declaration order)
    env.enums[name]   = [(ename, value), ...]
Types are the tuples of fcpmc.schema with ('ref', name) for user types.

Values: struct -> dict; enum -> int; arrays -> list; optional -> None | value;
str -> str (7-bit ASCII); floats -> Python float.

Encoder and decoder are written separately (the decoder is not derived from the
encoder)."""

from __future__ import annotations

import struct as _struct


class Env:
    def __init__(self, decls=()):
        self.structs = {}
        self.enums = {}
        for d in decls:
            self.add(d)

    def add(self, d):
        if d[0] == "struct":
            self.structs[d[1]] = [(f[0], f[1], f[2]) for f in d[2]]
        elif d[0] == "enum":
            self.enums[d[1]] = list(d[2])

    def kind(self, name):
        if name in self.structs:
            return "struct"
        if name in self.enums:
            return "enum"
        raise KeyError(name)


def enum_width(pairs):
    m = max(v for _, v in pairs)
    if m <= 1:
        return 1
    return m.bit_length()


class DecodeError(Exception):
    pass


# ---------------------------------------------------------------- encoder


class _W:
    def __init__(self):
        self.acc = 0
        self.pos = 0

    def word(self, v, bits):
        self.acc |= (v & ((1 << bits) - 1)) << self.pos
        self.pos += bits

    def bytes(self):
        n = (self.pos + 7) // 8
        return self.acc.to_bytes(n, "little")


def _enc(env, w, t, v):
    k = t[0]
    if k == "u":
        assert 0 <= v < (1 << t[1]), (t, v)
        w.word(v, t[1])
    elif k == "i":
        assert -(1 << (t[1] - 1)) <= v < (1 << (t[1] - 1)), (t, v)
        w.word(v & ((1 << t[1]) - 1), t[1])
    elif k == "f32":
        w.word(int.from_bytes(_struct.pack("<f", v), "little"), 32)
    elif k == "f64":
        w.word(int.from_bytes(_struct.pack("<d", v), "little"), 64)
    elif k == "str":
        w.word(len(v), 32)
        for ch in v:
            w.word(ord(ch), 8)
    elif k == "ref":
        if env.kind(t[1]) == "struct":
            fields = sorted(env.structs[t[1]], key=lambda f: f[1])
            for fname, _fid, ft in fields:
                _enc(env, w, ft, v[fname])
        else:
            w.word(v, enum_width(env.enums[t[1]]))
    elif k == "arr":
        assert len(v) == t[2]
        for x in v:
            _enc(env, w, t[1], x)
    elif k == "dyn":
        w.word(len(v), 32)
        for x in v:
            _enc(env, w, t[1], x)
    elif k == "opt":
        if v is None:
            w.word(0, 8)
        else:
            w.word(1, 8)
            _enc(env, w, t[1], v)
    else:
        raise ValueError(t)


def encode(env, name, value) -> bytes:
    w = _W()
    _enc(env, w, ("ref", name), value)
    return w.bytes()


def bit_length(env, name, value) -> int:
    w = _W()
    _enc(env, w, ("ref", name), value)
    return w.pos


# ---------------------------------------------------------------- decoder


class _R:
    def __init__(self, data):
        self.data = bytes(data)
        self.pos = 0

    def word(self, bits):
        end = self.pos + bits
        if end > 8 * len(self.data):
            raise DecodeError("short input")
        out = 0
        for i in range(bits):
            p = self.pos + i
            if (self.data[p >> 3] >> (p & 7)) & 1:
                out |= 1 << i
        self.pos = end
        return out


def _dec(env, r, t):
    k = t[0]
    if k == "u":
        return r.word(t[1])
    if k == "i":
        x = r.word(t[1])
        if x >> (t[1] - 1):
            x -= 1 << t[1]
        return x
    if k == "f32":
        return _struct.unpack("<f", r.word(32).to_bytes(4, "little"))[0]
    if k == "f64":
        return _struct.unpack("<d", r.word(64).to_bytes(8, "little"))[0]
    if k == "str":
        n = r.word(32)
        if 8 * n > 8 * len(r.data) - r.pos:
            raise DecodeError("string longer than input")
        return "".join(chr(r.word(8)) for _ in range(n))
    if k == "ref":
        if env.kind(t[1]) == "struct":
            out = {}
            for fname, _fid, ft in sorted(env.structs[t[1]], key=lambda f: f[1]):
                out[fname] = _dec(env, r, ft)
            return out
        return r.word(enum_width(env.enums[t[1]]))
    if k == "arr":
        return [_dec(env, r, t[1]) for _ in range(t[2])]
    if k == "dyn":
        n = r.word(32)
        out = []
        for _ in range(n):
            if r.pos >= 8 * len(r.data) and min_bits(env, t[1]) > 0:
                raise DecodeError("array longer than input")
            out.append(_dec(env, r, t[1]))
        return out
    if k == "opt":
        f = r.word(8)
        if f == 0:
            return None
        return _dec(env, r, t[1])
    raise ValueError(t)


def decode(env, name, data):
    r = _R(data)
    return _dec(env, r, ("ref", name))


def min_bits(env, t) -> int:
    """Smallest number of bits any value of type t occupies."""
    k = t[0]
    if k in ("u", "i"):
        return t[1]
    if k == "f32":
        return 32
    if k == "f64":
        return 64
    if k in ("str", "dyn"):
        return 32
    if k == "opt":
        return 8
    if k == "arr":
        return t[2] * min_bits(env, t[1])
    if k == "ref":
        if env.kind(t[1]) == "struct":
            return sum(min_bits(env, f[2]) for f in env.structs[t[1]])
        return enum_width(env.enums[t[1]])
    raise ValueError(t)


def is_fixed(env, t) -> bool:
    k = t[0]
    if k in ("str", "dyn", "opt"):
        return False
    if k == "arr":
        return is_fixed(env, t[1])
    if k == "ref" and env.kind(t[1]) == "struct":
        return all(is_fixed(env, f[2]) for f in env.structs[t[1]])
    return True


# ---------------------------------------------------------------- value equality


def same(a, b) -> bool:
    """Exact equality: floats bit-for-bit, container types exact."""
    if isinstance(a, float) or isinstance(b, float):
        return isinstance(a, float) and isinstance(b, float) and _struct.pack("<d", a) == _struct.pack("<d", b)
    if type(a) is not type(b):
        return False
    if isinstance(a, dict):
        return a.keys() == b.keys() and all(same(a[k], b[k]) for k in a)
    if isinstance(a, list):
        return len(a) == len(b) and all(same(x, y) for x, y in zip(a, b))
    return a == b


# ---------------------------------------------------------------- project vectors


def load_project_vectors(repo):
    """Translate tests/standardized/fcp_tests.json into (env decls, struct, value, bytes)."""
    import json
    import os
    import re

    std = os.path.join(repo, "tests", "standardized")
    suites = json.load(open(os.path.join(std, "fcp_tests.json")))
    consts = {
        "ULONG_MAX": 2**64 - 1,
        "LLONG_MAX": 2**63 - 1,
        "LLONG_MIN": -(2**63),
    }
    out = []
    for suite in suites:
        text = open(os.path.join(std, suite["schema"])).read()
        decls = parse_simple_fcp(text)
        env = Env(decls)
        for t in suite["tests"]:
            sname = t["datatype"]
            value = {}
            for xpath, raw in t["decoded"].items():
                root, fname = xpath.split(":")
                assert root == sname
                ftype = [f for f in env.structs[sname] if f[0] == fname][0][2]
                value[fname] = _conv_vec(env, ftype, raw, consts)
            data = bytes(int(x, 0) if isinstance(x, str) else x for x in t["encoded"])
            out.append((suite["schema"], t["name"], text, decls, sname, value, data))
    return out


def _conv_vec(env, t, raw, consts):
    k = t[0]
    if k in ("u", "i"):
        return consts[raw] if raw in consts else (raw if isinstance(raw, int) else int(raw, 0))
    if k in ("f32", "f64"):
        return float(raw)
    if k == "str":
        return raw
    if k == "ref":
        return dict(env.enums[t[1]])[raw]
    if k in ("arr", "dyn"):
        return [_conv_vec(env, t[1], x, consts) for x in raw]
    if k == "opt":
        return None if raw is None else _conv_vec(env, t[1], raw, consts)
    raise ValueError(t)


def parse_simple_fcp(text):
    """Tiny independent reader for the two standardized schemas (flat structs/enums only)."""
    import re

    decls = []
    for m in re.finditer(r"(struct|enum)\s+(\w+)\s*\{([^}]*)\}", text):
        kind, name, body = m.groups()
        if kind == "enum":
            pairs = tuple((a, int(b)) for a, b in re.findall(r"(\w+)\s*=\s*(-?\d+)\s*,", body))
            decls.append(("enum", name, pairs))
        else:
            fields = []
            for fm in re.finditer(r"(\w+)\s*@\s*(\d+)\s*:\s*([^,\n]+(?:,\s*\d+\s*\])?)\s*,", body):
                fields.append((fm.group(1), int(fm.group(2)), _parse_type(fm.group(3).strip())))
            decls.append(("struct", name, tuple(fields)))
    return decls


def _parse_type(s):
    import re

    s = s.strip()
    m = re.fullmatch(r"Optional\[(.*)\]", s)
    if m:
        return ("opt", _parse_type(m.group(1)))
    m = re.fullmatch(r"\[(.*),\s*(\d+)\s*\]", s)
    if m:
        return ("arr", _parse_type(m.group(1)), int(m.group(2)))
    m = re.fullmatch(r"\[(.*)\]", s)
    if m:
        return ("dyn", _parse_type(m.group(1)))
    m = re.fullmatch(r"([ui])(\d+)", s)
    if m:
        return (m.group(1), int(m.group(2)))
    if s in ("f32", "f64", "str"):
        return (s,)
    return ("ref", s)


def check_project_vectors(repo):
    """The reference codec must reproduce every project vector in both directions."""
    vecs = load_project_vectors(repo)
    bad = []
    for schema, tname, _text, decls, sname, value, data in vecs:
        env = Env(decls)
        e = encode(env, sname, value)
        if e != data:
            bad.append((schema, tname, "encode", e.hex(), data.hex()))
        d = decode(env, sname, data)
        if not same(_floatify(env, ("ref", sname), d), _floatify(env, ("ref", sname), value)):
            bad.append((schema, tname, "decode", d, value))
    return len(vecs), bad


def _floatify(env, t, v):
    return v
