"""Shared runtime for all checks: repo binding, violations, known findings,
evidence, replays, deterministic parallel map, BFS explorer, fork-snapshot
history explorer."""

from __future__ import annotations

import collections
import hashlib
import json
import os
import pickle
import struct
import sys
import time
import traceback
from concurrent.futures import ProcessPoolExecutor
import multiprocessing

VERIF = os.path.dirname(os.path.dirname(os.path.abspath(__file__)))
REPO = os.environ.get("FCPMC_REPO", "/repo")
JOBS = int(os.environ.get("FCPMC_JOBS", "16"))
# evidence and replays of runs against a scratch copy (seeded-defect runs) never overwrite the real ones
OUT = VERIF if os.path.realpath(REPO) == "/repo" else os.environ.get("FCPMC_OUT", "/tmp/fcpmc-scratch-out")
PYTHON = "/venv/bin/python"


def bind_repo() -> None:
    """Make `import fcp` and the four plug-ins resolve to REPO's working tree."""
    paths = [REPO + "/src"] + [
        REPO + "/plugins/" + p for p in ("fcp_dbc", "fcp_nop", "fcp_can_c", "fcp_cpp")
    ]
    for p in reversed(paths):
        if p in sys.path:
            sys.path.remove(p)
        sys.path.insert(0, p)
    import fcp  # noqa

    assert os.path.realpath(fcp.__file__).startswith(os.path.realpath(REPO) + "/"), (
        fcp.__file__,
        REPO,
    )


def subprocess_env(hashseed: str = "0") -> dict:
    env = dict(os.environ)
    env["PYTHONHASHSEED"] = hashseed
    pp = [REPO + "/src"] + [
        REPO + "/plugins/" + p for p in ("fcp_dbc", "fcp_nop", "fcp_can_c", "fcp_cpp")
    ] + [VERIF]
    env["PYTHONPATH"] = ":".join(pp)
    env["FCPMC_REPO"] = REPO
    return env


def jsonable(x):
    if isinstance(x, float):
        if x != x or x in (float("inf"), float("-inf")) or (x == 0 and str(x) == "-0.0"):
            return {"f64hex": struct.pack("<d", x).hex()}
        return x
    if isinstance(x, (bytes, bytearray)):
        return {"hex": bytes(x).hex()}
    if isinstance(x, dict):
        return {str(k): jsonable(v) for k, v in x.items()}
    if isinstance(x, (list, tuple)):
        return [jsonable(v) for v in x]
    if isinstance(x, (str, int, bool)) or x is None:
        return x
    return repr(x)


class Violation:
    def __init__(self, check, class_key, input, expected=None, actual=None, note=""):
        self.check = check
        self.class_key = class_key
        self.input = input
        self.expected = expected
        self.actual = actual
        self.note = note

    def to_json(self, prop, tier):
        return {
            "property": prop,
            "check": self.check,
            "class_key": self.class_key,
            "tier": tier,
            "input": jsonable(self.input),
            "expected": jsonable(self.expected),
            "actual": jsonable(self.actual),
            "note": self.note,
        }


class Stats:
    """Mergeable counters collected by workers."""

    def __init__(self):
        self.c = collections.Counter()
        self.sets = collections.defaultdict(set)
        self.samples = []
        self.violations = []  # list[Violation]

    def count(self, key, n=1):
        self.c[key] += n

    def add(self, setname, item):
        self.sets[setname].add(item)

    def sample(self, s, cap=6):
        if len(self.samples) < cap:
            self.samples.append(s)

    def violation(self, *a, **k):
        v = Violation(*a, **k)
        # keep at most a few examples per class per worker
        n = sum(1 for x in self.violations if x.class_key == v.class_key)
        self.c["violations_total"] += 1
        if n < 3:
            self.violations.append(v)

    def merge(self, other: "Stats"):
        self.c.update(other.c)
        for k, v in other.sets.items():
            self.sets[k] |= v
        for s in other.samples:
            self.sample(s)
        self.violations.extend(other.violations)


def load_known_findings():
    path = os.path.join(VERIF, "known_findings.json")
    if not os.path.exists(path):
        return []
    with open(path) as f:
        return json.load(f)["findings"]


class Run:
    """One invocation of one check."""

    def __init__(self, prop: str, tier: str):
        self.prop = prop
        self.tier = tier
        self.seed = int(os.environ.get("VERIF_SEED", "0") or 0)
        self.t0 = time.time()
        self.stats = Stats()
        self.assumptions = []
        self.bounds = {}
        self.caps_hit = []
        self.rule = ""
        self.extra = {}
        import shutil

        shutil.rmtree(os.path.join(OUT, "replays", prop), ignore_errors=True)
        self.deadline = self.t0 + float(os.environ.get("FCPMC_DEADLINE_S", "0") or 0) if os.environ.get("FCPMC_DEADLINE_S") else None

    def out_of_time(self):
        return self.deadline is not None and time.time() > self.deadline

    # ------------------------------------------------------------------
    def finish(self) -> int:
        st = self.stats
        known = [k for k in load_known_findings() if k["property"] == self.prop]
        open_keys = {k["class_key"]: k for k in known if k.get("status") == "open"}
        new = []
        matched = collections.OrderedDict()
        for v in st.violations:
            if v.class_key in open_keys:
                matched.setdefault(v.class_key, v)
            else:
                new.append(v)
        lines = []
        for ck, v in matched.items():
            lines.append(
                f"KNOWN-FINDING: property={self.prop} {open_keys[ck]['what_fails']} [{ck}]"
            )
        seen_new = collections.OrderedDict()
        for v in new:
            seen_new.setdefault(v.class_key, []).append(v)
        rdir = os.path.join(OUT, "replays", self.prop)
        for n_written, (ck, vs) in enumerate(seen_new.items()):
            if n_written >= 12:
                lines.append("  ... and %d more violation classes (see evidence new_violation_classes)" % (len(seen_new) - 12))
                break
            v = vs[0]
            doc = v.to_json(self.prop, self.tier)
            sha = hashlib.sha256(json.dumps(doc, sort_keys=True).encode()).hexdigest()[:12]
            os.makedirs(rdir, exist_ok=True)
            path = os.path.join(rdir, sha + ".json")
            with open(path, "w") as f:
                json.dump(doc, f, indent=1, sort_keys=True)
            lines.append(f"VIOLATION property={self.prop} replay={path}")
            lines.append(f"  class={ck} note={v.note[:300]}")
        wall = time.time() - self.t0
        cov = {
            "states": int(st.c.get("states", 0)),
            "transitions": int(st.c.get("transitions", 0)),
            "traces_validated_against_impl": int(st.c.get("executions", 0)),
            "evaluations": int(st.c.get("executions", 0)),
            "distinct_nontrivial": len(st.sets.get("nontrivial", ())),
            "distinct_outcomes": len(st.sets.get("outcomes", ())),
            "rule": self.rule,
            "samples": jsonable(st.samples) or ["(none)"],
            "exhaustive": not self.caps_hit,
            "bounds": self.bounds,
            "caps_hit": self.caps_hit,
            "counters": {k: int(v) for k, v in sorted(st.c.items())},
            "known_findings_matched": sorted(matched.keys()),
            "new_violation_classes": sorted(seen_new.keys()),
        }
        cov.update(self.extra)
        ev = {
            "property_id": self.prop,
            "tier": self.tier,
            "seed": self.seed,
            "level": "model_checking",
            "coverage": cov,
            "assumptions": self.assumptions,
            "wall_s": round(wall, 2),
            "violations": len(seen_new),
        }
        os.makedirs(os.path.join(OUT, "evidence"), exist_ok=True)
        with open(os.path.join(OUT, "evidence", self.prop + ".json"), "w") as f:
            json.dump(ev, f, indent=1, sort_keys=True)
        for l in lines:
            print(l)
        print(
            f"[{self.prop} {self.tier}] states={cov['states']} transitions={cov['transitions']} "
            f"executions={cov['evaluations']} nontrivial={cov['distinct_nontrivial']} "
            f"outcomes={cov['distinct_outcomes']} known={len(matched)} new={len(seen_new)} "
            f"exhaustive={cov['exhaustive']} wall={wall:.1f}s"
        )
        sys.stdout.flush()
        return 1 if seen_new else 0


# ----------------------------------------------------------------------
# deterministic parallel map (fork): func(chunk) -> Stats

_PM_FUNC = None


def _pm_call(arg):
    try:
        return _PM_FUNC(arg)
    except BaseException:
        s = Stats()
        s.violation(
            "harness",
            "harness/internal-error",
            {"arg": repr(arg)[:2000]},
            note=traceback.format_exc()[-3000:],
        )
        s.c["harness_errors"] += 1
        return s


def pmap(func, items, jobs=None, chunksize=1):
    """Ordered parallel map using fork; `func` may be a closure."""
    global _PM_FUNC
    items = list(items)
    jobs = jobs or JOBS
    if jobs <= 1 or len(items) <= 1:
        return [func(x) for x in items]
    _PM_FUNC = func
    ctx = multiprocessing.get_context("fork")
    with ProcessPoolExecutor(max_workers=min(jobs, len(items)), mp_context=ctx) as ex:
        return list(ex.map(_pm_call, items, chunksize=chunksize))


def chunks(seq, n):
    seq = list(seq)
    return [seq[i : i + n] for i in range(0, len(seq), n)]


# ----------------------------------------------------------------------
# explicit-state BFS over a construction space


def bfs(initial, successors, canon, max_depth):
    """Breadth-first closure. Returns (states in discovery order with depth, transitions)."""
    seen = {}
    order = []
    frontier = collections.deque()
    transitions = 0
    for s in initial:
        k = canon(s)
        if k not in seen:
            seen[k] = 0
            order.append((s, 0))
            frontier.append((s, 0))
    while frontier:
        s, d = frontier.popleft()
        if d >= max_depth:
            continue
        for _label, n in successors(s):
            transitions += 1
            k = canon(n)
            if k not in seen:
                seen[k] = d + 1
                order.append((n, d + 1))
                frontier.append((n, d + 1))
    return order, transitions


# ----------------------------------------------------------------------
# fork-snapshot exploration of history spaces on live objects


def fork_histories(ops, depth, apply_op, prefix=(), parallel_top=True):
    """Explore every history over `ops` up to length `depth` on live state.

    apply_op(op, history_so_far) is executed in a forked child that inherits the
    exact live state reached by `history_so_far`; it returns a picklable
    observation.  Returns list of (history tuple, observation) in canonical
    (lexicographic by op index) order.  An exception in apply_op is reported as
    observation {"exception": ...} and that branch is still extended.
    """

    def child(op, hist, d, wfd):
        out = []
        try:
            try:
                obs = apply_op(op, hist)
            except BaseException as e:  # noqa
                obs = {"exception": type(e).__name__ + ": " + str(e)[:300]}
            h2 = hist + (op,)
            out.append((h2, obs))
            if d + 1 < depth:
                out.extend(level(h2, d + 1, False))
            data = pickle.dumps(out)
        except BaseException:
            data = pickle.dumps([(hist + (op,), {"harness_error": traceback.format_exc()[-2000:]})])
        with os.fdopen(wfd, "wb") as w:
            w.write(data)
        os._exit(0)

    def level(hist, d, parallel):
        results = []
        if parallel:
            pending = []
            for op in ops:
                r, w = os.pipe()
                pid = os.fork()
                if pid == 0:
                    os.close(r)
                    child(op, hist, d, w)
                os.close(w)
                pending.append((pid, r))
                # bound concurrency
                while len(pending) >= JOBS:
                    pid0, r0 = pending.pop(0)
                    with os.fdopen(r0, "rb") as f:
                        results.append(f.read())
                    os.waitpid(pid0, 0)
            for pid0, r0 in pending:
                with os.fdopen(r0, "rb") as f:
                    results.append(f.read())
                os.waitpid(pid0, 0)
        else:
            for op in ops:
                r, w = os.pipe()
                pid = os.fork()
                if pid == 0:
                    os.close(r)
                    child(op, hist, d, w)
                os.close(w)
                with os.fdopen(r, "rb") as f:
                    results.append(f.read())
                os.waitpid(pid, 0)
        out = []
        for data in results:
            out.extend(pickle.loads(data))
        return out

    sys.stdout.flush()
    sys.stderr.flush()
    return level(tuple(prefix), 0, parallel_top)


def sha(x) -> str:
    return hashlib.sha256(x if isinstance(x, bytes) else str(x).encode()).hexdigest()
