"""Build and drive the generic C++ harness against headers produced by the real
fcp_cpp generator.  Compiled harnesses are cached under /verif/.cache keyed by the
sha256 of every source that went into them (stamp line masked), compiler version
and flags."""

from __future__ import annotations

import hashlib
import json
import os
import shutil
import subprocess
import tempfile
import time

from . import common

CACHE = os.environ.get("FCPMC_CACHE") or os.path.join(common.VERIF, ".cache")
HARNESS = os.path.join(os.path.dirname(os.path.abspath(__file__)), "harness", "cpp_harness.cpp")
THIRD = os.path.join(common.VERIF, "third_party")
BASE_FLAGS = ["-std=c++17", "-O0", "-w"]
SAN_FLAGS = ["-fsanitize=address,undefined", "-fno-sanitize-recover=undefined", "-g0"]
CACHE_LIMIT_BYTES = 6 * 1024**3

PCH_TEXT = "\n".join(
    "#include <%s>" % h
    for h in ("vector", "cstdint", "map", "any", "array", "variant", "memory", "string", "sstream", "algorithm", "cstring", "optional", "future", "fstream", "filesystem", "iostream", "unordered_map", "cmath", "chrono", "nlohmann/json.hpp")
) + "\n"

_cc_version = None


def cc_version():
    global _cc_version
    if _cc_version is None:
        _cc_version = subprocess.run(["g++", "--version"], stdout=subprocess.PIPE, text=True).stdout.split("\n")[0]
    return _cc_version


def mask(text):
    return "\n".join(l for l in str(text).split("\n") if not l.startswith("// Generated using fcp"))


def ensure_pch(flags):
    key = hashlib.sha256(("pch|" + PCH_TEXT + cc_version() + " ".join(flags) + _tree_hash(THIRD)).encode()).hexdigest()[:16]
    d = os.path.join(CACHE, "pch-" + key)
    gch = os.path.join(d, "pch.h.gch")
    if os.path.exists(gch):
        return d
    tmp = tempfile.mkdtemp(prefix="pch-", dir=_cache_dir())
    with open(os.path.join(tmp, "pch.h"), "w") as f:
        f.write(PCH_TEXT)
    p = subprocess.run(["g++"] + flags + ["-I", THIRD, "-x", "c++-header", os.path.join(tmp, "pch.h"), "-o", os.path.join(tmp, "pch.h.gch")], stdout=subprocess.PIPE, stderr=subprocess.PIPE, text=True)
    if p.returncode != 0:
        shutil.rmtree(tmp, ignore_errors=True)
        raise RuntimeError("cannot build precompiled header: " + p.stderr[-2000:])
    try:
        os.rename(tmp, d)
    except OSError:
        shutil.rmtree(tmp, ignore_errors=True)  # lost a race: someone else built it
    return d


_tree_hashes = {}


def _tree_hash(path):
    if path not in _tree_hashes:
        h = hashlib.sha256()
        for root, _d, files in sorted(os.walk(path)):
            for fn in sorted(files):
                h.update(fn.encode())
                h.update(str(os.path.getsize(os.path.join(root, fn))).encode())
        _tree_hashes[path] = h.hexdigest()
    return _tree_hashes[path]


def _cache_dir():
    os.makedirs(CACHE, exist_ok=True)
    return CACHE


def trim_cache():
    """Keep the cache under its size cap (oldest entries first)."""
    try:
        entries = []
        total = 0
        for name in os.listdir(_cache_dir()):
            p = os.path.join(CACHE, name)
            size = 0
            for root, _d, files in os.walk(p):
                for fn in files:
                    try:
                        size += os.path.getsize(os.path.join(root, fn))
                    except OSError:
                        pass
            entries.append((os.path.getmtime(p), size, p))
            total += size
        for _m, size, p in sorted(entries):
            if total <= CACHE_LIMIT_BYTES:
                break
            shutil.rmtree(p, ignore_errors=True)
            total -= size
    except OSError:
        pass


def generate_cpp(fcp):
    """Run the real generator -> {filename: contents}."""
    import fcp_cpp

    results = fcp_cpp.Generator().generate(fcp, {"output": "out", "templates": {}, "skels": {}})
    files = {}
    for r in results:
        files[os.path.basename(str(r["path"]))] = str(r["contents"])
    return files


def all_headers(files, exclude=(), order="default"):
    names = [n for n in sorted(files) if n.endswith(".h") and n not in exclude]
    lead = ("fcp.h", "dynamic.h", "can.h", "can_static_schema.h", "can_dynamic_schema.h", "rpc.h")
    if order == "protocols-first":
        # the per-protocol headers (fcp_can.h ...) ahead of the CAN wrappers: any order of the generator's own headers must work
        lead = ("fcp.h",) + tuple(n for n in names if n.startswith("fcp_")) + lead[1:]
    first = [n for n in lead if n in names]
    rest = [n for n in names if n not in first]
    return "".join('#include "%s"\n' % n for n in first + rest)


def build(files, extra_cpp="", sanitize=False, exclude_headers=(), header_order="default"):
    """-> (exe path | None, error text | None).  Cached by content."""
    flags = BASE_FLAGS + (SAN_FLAGS if sanitize else [])
    hdr = all_headers(files, exclude_headers, header_order)
    h = hashlib.sha256()
    for name in sorted(files):
        h.update(name.encode())
        h.update(mask(files[name]).encode())
    h.update(hdr.encode())
    h.update(open(HARNESS, "rb").read())
    h.update(extra_cpp.encode())
    h.update((cc_version() + " ".join(flags)).encode())
    key = h.hexdigest()[:24]
    d = os.path.join(_cache_dir(), "cpp-" + key)
    exe = os.path.join(d, "harness")
    errf = os.path.join(d, "error.txt")
    if os.path.exists(exe):
        os.utime(d, None)
        return exe, None
    if os.path.exists(errf):
        return None, open(errf).read()
    pch = ensure_pch(flags)
    tmp = tempfile.mkdtemp(prefix="build-", dir=_cache_dir())
    try:
        for name, text in files.items():
            with open(os.path.join(tmp, name), "w") as f:
                f.write(text)
        with open(os.path.join(tmp, "all_headers.h"), "w") as f:
            f.write(hdr)
        shutil.copy(HARNESS, os.path.join(tmp, "cpp_harness.cpp"))
        srcs = [os.path.join(tmp, "cpp_harness.cpp")]
        if extra_cpp:
            with open(os.path.join(tmp, "extra.cpp"), "w") as f:
                f.write('#include "all_headers.h"\n' + extra_cpp)
            srcs.append(os.path.join(tmp, "extra.cpp"))
        p = subprocess.run(["g++"] + flags + ["-I", pch, "-include", "pch.h", "-I", tmp, "-I", THIRD] + srcs + ["-o", os.path.join(tmp, "harness")], stdout=subprocess.PIPE, stderr=subprocess.PIPE, text=True)
        if p.returncode != 0:
            err = p.stderr[-6000:]
            with open(os.path.join(tmp, "error.txt"), "w") as f:
                f.write(err)
            for fn in os.listdir(tmp):
                if fn != "error.txt":
                    os.remove(os.path.join(tmp, fn))
            try:
                os.rename(tmp, d)
            except OSError:
                shutil.rmtree(tmp, ignore_errors=True)
            return None, err
        # keep only the binary
        for fn in os.listdir(tmp):
            if fn != "harness":
                os.remove(os.path.join(tmp, fn))
        try:
            os.rename(tmp, d)
        except OSError:
            shutil.rmtree(tmp, ignore_errors=True)
        return exe, None
    except BaseException:
        shutil.rmtree(tmp, ignore_errors=True)
        raise


def compile_standalone(files, header):
    """-> error text | None: does `header` compile when it is the only header a translation unit includes?"""
    flags = BASE_FLAGS
    h = hashlib.sha256()
    for name in sorted(files):
        h.update(name.encode())
        h.update(mask(files[name]).encode())
    h.update(("standalone|" + header + cc_version() + " ".join(flags)).encode())
    d = os.path.join(_cache_dir(), "hdr-" + h.hexdigest()[:24])
    res = os.path.join(d, "result.txt")
    if os.path.exists(res):
        t = open(res).read()
        return t or None
    pch = ensure_pch(flags)
    tmp = tempfile.mkdtemp(prefix="hdr-", dir=_cache_dir())
    try:
        for name, text in files.items():
            with open(os.path.join(tmp, name), "w") as f:
                f.write(text)
        with open(os.path.join(tmp, "tu.cpp"), "w") as f:
            f.write('#include "%s"\nint main() { return 0; }\n' % header)
        p = subprocess.run(["g++"] + flags + ["-fsyntax-only", "-I", pch, "-include", "pch.h", "-I", tmp, "-I", THIRD, os.path.join(tmp, "tu.cpp")], stdout=subprocess.PIPE, stderr=subprocess.PIPE, text=True)
        err = "" if p.returncode == 0 else p.stderr[-3000:]
        for fn in os.listdir(tmp):
            os.remove(os.path.join(tmp, fn))
        with open(os.path.join(tmp, "result.txt"), "w") as f:
            f.write(err)
        try:
            os.rename(tmp, d)
        except OSError:
            shutil.rmtree(tmp, ignore_errors=True)
        return err or None
    except BaseException:
        shutil.rmtree(tmp, ignore_errors=True)
        raise


def run_requests(exe, requests, reflection_bytes=None, timeout=600):
    """Send JSON requests; returns list of answers (dict) the same length; a crash yields
    {"crash": ...} for the unanswered tail."""
    tmpd = tempfile.mkdtemp(prefix="fcpmc-cpp-")
    try:
        args = [exe]
        if reflection_bytes is not None:
            rp = os.path.join(tmpd, "schema.bin")
            with open(rp, "wb") as f:
                f.write(reflection_bytes)
            args.append(rp)
        data = "".join(json.dumps(r) + "\n" for r in requests)
        env = dict(os.environ)
        env["ASAN_OPTIONS"] = "detect_leaks=0:abort_on_error=0"
        p = subprocess.run(args, input=data, stdout=subprocess.PIPE, stderr=subprocess.PIPE, text=True, timeout=timeout, env=env)
        lines = p.stdout.split("\n")
        out = []
        for ln in lines:
            if not ln:
                continue
            try:
                out.append(json.loads(ln))
            except ValueError:
                out.append({"garbled": ln[:200]})
        if len(out) < len(requests):
            tail = {"crash": "rc=%s %s" % (p.returncode, p.stderr[-400:])}
            out += [tail] * (len(requests) - len(out))
        return out
    finally:
        shutil.rmtree(tmpd, ignore_errors=True)


def first_error(stderr):
    import re

    for line in stderr.split("\n"):
        if " error: " in line:
            msg = line.split(" error: ", 1)[1].strip()
            msg = re.sub(r"[‘'][^’']*[’']", "'_'", msg)
            msg = re.sub(r"\d+", "N", msg)
            return msg[:90]
    return "?"
