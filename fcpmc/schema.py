"""A deliberately boring description language for FCP schemas, independent of
fcp's own classes, plus a printer to FCP text under formatting variants.

Types (hashable tuples):
  ('u', w) ('i', w) ('f32',) ('f64',) ('str',)
  ('ref', name)                      reference to a named struct/enum declared elsewhere
  ('arr', T, n) ('dyn', T) ('opt', T)
  ('st', ((fname, fid, T), ...))     structural (anonymous) struct, hoisted by `hoist`
  ('en', ((ename, value), ...))      structural enum, hoisted by `hoist`

Declarations (tuples):
  ('struct', name, (field, ...))     field = (fname, fid, T, unit|None, (min,max)|None)
  ('enum', name, ((ename, value), ...))
  ('impl', protocol, type, as_name|None, ((key, value), ...), ((signame, ((key, value), ...)), ...))
  ('service', name, id, ((mname, mid, input, output), ...))
  ('device', name, ((key, value), ...))
  ('mod', 'a.b.c')

Extension values: int, float, str (string literal), ('id', name), list of values.
"""

from __future__ import annotations

import itertools


def U(w):
    return ("u", w)


def I(w):
    return ("i", w)


F32 = ("f32",)
F64 = ("f64",)
STR = ("str",)


def Arr(t, n):
    return ("arr", t, n)


def Dyn(t):
    return ("dyn", t)


def Opt(t):
    return ("opt", t)


def St(*fields):
    """Structural struct: fields given as (name, id, T) or just T (auto-named)."""
    out = []
    for i, f in enumerate(fields):
        if isinstance(f, tuple) and len(f) == 3 and isinstance(f[0], str) and isinstance(f[1], int) and not isinstance(f[2], int):
            out.append(f)
        else:
            out.append(("f%d" % i, i, f))
    return ("st", tuple(out))


def En(*pairs):
    return ("en", tuple(pairs))


def enum_with_max(m):
    """Structural enum with maximum value m (and 0)."""
    if m == 0:
        return ("en", (("e0", 0),))
    return ("en", (("e0", 0), ("emax", m)))


def type_depth(t):
    k = t[0]
    if k in ("arr", "dyn", "opt"):
        return 1 + type_depth(t[1])
    if k == "st":
        return 1 + max(type_depth(f[2]) for f in t[1])
    return 0


def type_str(t):
    k = t[0]
    if k in ("u", "i"):
        return "%s%d" % (k, t[1])
    if k in ("f32", "f64", "str"):
        return k
    if k == "ref":
        return t[1]
    if k == "arr":
        return "[%s,%d]" % (type_str(t[1]), t[2])
    if k == "dyn":
        return "[%s]" % type_str(t[1])
    if k == "opt":
        return "Optional[%s]" % type_str(t[1])
    if k == "st":
        return "{" + ",".join("%s@%d:%s" % (f[0], f[1], type_str(f[2])) for f in t[1]) + "}"
    if k == "en":
        return "enum{" + ",".join("%s=%d" % p for p in t[1]) + "}"
    raise ValueError(t)


class Hoister:
    """Turns structural struct/enum types into named declarations.

    Names are assigned deterministically in order of first occurrence, so that
    alpha-equivalent inputs give identical output."""

    def __init__(self, prefix=""):
        self.names = {}
        self.decls = []
        self.prefix = prefix

    def conv(self, t):
        k = t[0]
        if k in ("arr",):
            return ("arr", self.conv(t[1]), t[2])
        if k in ("dyn", "opt"):
            return (k, self.conv(t[1]))
        if k == "st":
            if t in self.names:
                return ("ref", self.names[t])
            fields = tuple((f[0], f[1], self.conv(f[2]), None, None) for f in t[1])
            name = "%sN%d" % (self.prefix, len(self.names))
            self.names[t] = name
            self.decls.append(("struct", name, fields))
            return ("ref", name)
        if k == "en":
            if t in self.names:
                return ("ref", self.names[t])
            name = t[2] if len(t) > 2 else "%sE%d" % (self.prefix, len(self.names))
            self.names[t] = name
            self.decls.append(("enum", name, t[1]))
            return ("ref", name)
        return t


# ----------------------------------------------------------------------
# token printer

VARIANTS = ("canonical", "compact", "spaced", "commented", "nopipes", "pipes", "trailing", "noas", "noparens", "bare")


def _num(v):
    if isinstance(v, float):
        r = repr(v)
        return r
    return str(v)


def value_tokens(v, variant="canonical"):
    if isinstance(v, bool):
        raise ValueError("no booleans in fcp")
    if isinstance(v, (int, float)):
        return [_num(v)]
    if isinstance(v, str):
        return ['"%s"' % v]
    if isinstance(v, tuple) and v and v[0] == "id":
        return [v[1]]
    if isinstance(v, (list,)):
        toks = ["["]
        for i, x in enumerate(v):
            if i:
                toks.append(",")
            toks += value_tokens(x, variant)
        toks.append("]")
        return toks
    raise ValueError(v)


def type_tokens(t):
    k = t[0]
    if k in ("u", "i"):
        return ["%s%d" % (k, t[1])]
    if k in ("f32", "f64", "str"):
        return [k]
    if k == "ref":
        return [t[1]]
    if k == "arr":
        return ["["] + type_tokens(t[1]) + [",", str(t[2]), "]"]
    if k == "dyn":
        return ["["] + type_tokens(t[1]) + ["]"]
    if k == "opt":
        return ["Optional", "["] + type_tokens(t[1]) + ["]"]
    raise ValueError("unhoisted or unknown type %r" % (t,))


def decl_tokens(d, variant="canonical"):
    kind = d[0]
    toks = []
    if kind == "struct":
        toks += ["struct", d[1], "{"]
        for f in d[2]:
            fname, fid, t = f[0], f[1], f[2]
            unit = f[3] if len(f) > 3 else None
            rng = f[4] if len(f) > 4 else None
            order = f[5] if len(f) > 5 else "ur"
            toks += [fname, "@", str(fid), ":"] + type_tokens(t)
            params = []
            if unit is not None:
                params.append(("unit", [unit]))
            if rng is not None:
                params.append(("range", list(rng)))
            if order == "ru":
                params.reverse()
            for i, (pn, args) in enumerate(params):
                # "|"? before the first param, "|"? after each param
                if i == 0:
                    if variant not in ("nopipes", "bare"):
                        toks.append("|")
                elif variant == "pipes":
                    pass  # pipe already emitted after previous param
                toks += [pn] + (["("] if variant not in ("noparens", "bare") else [])
                for j, a in enumerate(args):
                    toks += value_tokens(a)
                    if j + 1 < len(args) or variant == "trailing":
                        toks.append(",")
                if variant not in ("noparens", "bare"):
                    toks.append(")")
                # the parentheses are optional in the grammar; without them the "|" is what ends a parameter
                if variant == "pipes" or (i + 1 < len(params) and variant not in ("nopipes", "bare")):
                    toks.append("|")
            toks.append(",")
        toks.append("}")
    elif kind == "enum":
        toks += ["enum", d[1], "{"]
        for n, v in d[2]:
            toks += [n, "="] + value_tokens(v) + [","]
        toks.append("}")
    elif kind == "impl":
        _, proto, typ, as_name, fields, signals = d[:6]
        layout = d[6] if len(d) > 6 else "fields-first"
        toks += ["impl", proto, "for", typ]
        if as_name is not None:
            if variant != "noas":
                toks.append("as")
            toks.append(as_name)
        toks.append("{")
        ftoks = [[k, ":"] + value_tokens(v) + [","] for k, v in fields]
        stoks = []
        for sname, sfields in signals:
            t = ["signal", sname, "{"]
            for k, v in sfields:
                t += [k, ":"] + value_tokens(v) + [","]
            stoks.append(t + ["}", ","])
        if layout == "signals-first":
            parts = stoks + ftoks
        elif layout == "interleaved":
            parts = []
            for i in range(max(len(ftoks), len(stoks))):
                parts += stoks[i : i + 1] + ftoks[i : i + 1]
        else:
            parts = ftoks + stoks
        for part in parts:
            toks += part
        toks.append("}")
    elif kind == "service":
        _, name, sid, methods = d
        toks += ["service", name, "@", str(sid), "{"]
        for mname, mid, inp, out in methods:
            toks += ["method", mname, "(", inp, ")", "@", str(mid), "returns", out, ","]
        toks.append("}")
    elif kind == "device":
        _, name, fields = d
        toks += ["device", name, "{"]
        for k, v in fields:
            toks += [k, ":"] + value_tokens(v) + [","]
        toks.append("}")
    elif kind == "mod":
        parts = d[1].split(".")
        toks.append("mod")
        for i, p in enumerate(parts):
            if i:
                toks.append(".")
            toks.append(p)
        toks.append(";")
    else:
        raise ValueError(d)
    return toks


def _isword(c):
    return c.isalnum() or c == "_" or c == '"' or c == "-" or c == "."


def join_tokens(toks, variant="canonical"):
    out = []
    comment_i = 0
    paren = 0
    for i, t in enumerate(toks):
        if i > 0:
            prev = toks[i - 1]
            need_space = _isword(prev[-1]) and _isword(t[0])
            if variant == "compact":
                out.append(" " if need_space else "")
            elif variant == "spaced":
                out.append("\n\t ")
            elif variant == "commented":
                comment_i += 1
                forms = (' /* c{ , " ; x */ ', ' // k } , " @\n', ' /** boxed **/ ', ' /***/ ', ' /**/ ', ' /* a\n * b\n **/ ', ' //\n')
                out.append(forms[comment_i % len(forms)])
            else:
                if prev in ("{", ";") or (prev == "," and paren == 0) or (prev == "}" and t != ","):
                    out.append("\n")
                elif t in (",", ";", ")", "]", ":") or prev in ("(", "["):
                    out.append("")
                else:
                    out.append(" ")
        if t in ("(", "["):
            paren += 1
        elif t in (")", "]"):
            paren -= 1
        out.append(t)
    return "".join(out) + "\n"


def print_schema(decls, variant="canonical", version="3"):
    """decls: list of declarations -> FCP text."""
    toks = ["version", ":", '"%s"' % version]
    for d in decls:
        toks += decl_tokens(d, variant)
    fmt = variant if variant in ("compact", "spaced", "commented") else "canonical"
    return join_tokens(toks, fmt)


def struct_decl(name, st, hoister):
    """Named top-level struct from a structural struct type, hoisting nested ones."""
    assert st[0] == "st"
    fields = tuple((f[0], f[1], hoister.conv(f[2]), None, None) for f in st[1])
    return ("struct", name, fields)


def schema_for_structs(named):
    """named: list of (name, structural struct type). Returns (decl list, hoister)."""
    h = Hoister()
    tops = []
    for name, st in named:
        tops.append(struct_decl(name, st, h))
    return h.decls + tops, h
