"""C04: packed CAN layout tiles the message; independent of encoder history; options stay on
their field."""

from __future__ import annotations

import itertools

from .. import common, refcodec, reflayout, shapes
from ..schema import U, I, F32, F64, Arr, St, enum_with_max, Hoister, print_schema, type_str, struct_decl
from ..common import Stats, Run, pmap, chunks, fork_histories

# nested struct declared out of field-id order: the layout must still follow the ids
OOO = ("st", (("a", 1, U(3)), ("b", 0, I(6))))
ENUM_MAX = (0, 1, 2, 3, 4, 7, 8, 15, 16, 31, 32, 63, 64, 127, 128, 255, 256, 65535, (1 << 49) - 1, 1 << 49, (1 << 53) + 1, (1 << 63) - 1, 1 << 63, (1 << 64) - 1)


def alphabet(tier):
    widths = (1, 3, 8, 13, 32, 64) if tier == "quick" else (1, 2, 3, 5, 7, 8, 9, 13, 16, 24, 31, 32, 33, 48, 63, 64)
    a = []
    for w in widths:
        a += [U(w), I(w)]
    a += [F32, F64]
    a += [enum_with_max(m) for m in ENUM_MAX]
    a += [St(U(3)), St(U(3), St(I(5), F32)), St(enum_with_max(5), U(2)), OOO, Arr(OOO, 2), St(U(1), OOO)]
    a += [Arr(U(8), 2), Arr(I(5), 3), Arr(St(U(3), I(6)), 2), Arr(Arr(U(4), 2), 2), Arr(enum_with_max(5), 2), Arr(F32, 1)]
    return a


REPS = [U(3), I(13), F32, enum_with_max(5), enum_with_max(16), St(U(3), I(6)), Arr(U(4), 2), Arr(St(U(1), enum_with_max(2)), 2), U(64), Arr(Arr(I(5), 2), 2), Arr(OOO, 2)]
REPS4 = [U(3), I(13), enum_with_max(5), St(U(3), I(6)), Arr(U(4), 2), F32, Arr(St(U(1), enum_with_max(2)), 2), enum_with_max(0)]


def build_space(tier):
    """(struct st with permuted ids) states; transitions = productions applied."""
    A = alphabet(tier)
    combos = []
    for t in A:
        combos.append((t,))
    for c in itertools.product(A, repeat=2):
        combos.append(c)
    for c in itertools.product(REPS, repeat=3):
        combos.append(c)
    if tier != "quick":
        for c in itertools.product(REPS4, repeat=4):
            combos.append(c)
    states = []
    transitions = 0
    for c in combos:
        n = len(c)
        for perm in itertools.permutations(range(n)):
            transitions += 1
            states.append(("st", tuple(("f%d" % i, perm[i], c[i]) for i in range(n))))
    return states, transitions, {"alphabet": len(A), "reps3": len(REPS), "reps4": len(REPS4) if tier != "quick" else 0, "struct_shapes": len(combos)}


OPTION_KINDS = (
    (("endianess", "big"),),
    (("mux_signal", "f0"), ("mux_count", 4)),
    (("endianess", "big"), ("mux_signal", "f1"), ("mux_count", 2)),
)


def option_cases(tier):
    """Structs with signal blocks on every subset of field names (incl. names nested deeper)."""
    base = [U(8), I(16), enum_with_max(5), St(("f0", 0, U(8)), ("q", 1, I(8))), Arr(U(8), 2), Arr(Arr(U(4), 2), 2)]
    out = []
    for c in itertools.product(base, repeat=2):
        st = ("st", tuple(("f%d" % i, i, c[i]) for i in range(2)))
        names = ["f0", "f1", "q", "f0_0", "f1_1"]
        for r in range(1, 3):
            for subset in itertools.combinations(names, r):
                for ok in OPTION_KINDS[: (3 if tier != "quick" else 2)]:
                    out.append((st, tuple((n, ok) for n in subset)))
    # plain (non-array) fields whose names look like unrolled array elements of another field
    for blk in ("f0", "temp", "f0_1"):
        for ok in OPTION_KINDS[:2]:
            st = ("st", (("f0", 0, U(8)), ("f0_1", 1, I(16)), ("temp", 2, U(8)), ("temp_1", 3, U(8)), ("temp_raw", 5, I(8)), ("temp_12", 4, ("st", (("temp_3", 0, U(4)), ("f0_0", 1, U(4)))))))
            out.append((st, ((blk, ok),)))
    # an array next to a field that is named like one of its elements
    pair = St(("x", 0, U(8)))
    out.append((("st", (("a", 0, Arr(U(8), 2)), ("a_0", 1, U(16)))), ()))
    out.append((("st", (("p", 0, Arr(pair, 1)), ("p_0", 1, pair))), ()))
    out.append((("st", (("a", 0, Arr(Arr(U(1), 2), 2)), ("a_1", 1, Arr(U(1), 1)))), ()))
    out.append((("st", (("a", 0, Arr(U(8), 2)), ("a_0", 1, U(16)))), (("a", OPTION_KINDS[0]),)))
    return out


def leaf_kind(t):
    return {"u": "unsigned", "i": "signed", "f32": "float", "f64": "double", "arr": "Array"}.get(t[0], "Enum")


def observe(encoding):
    return [
        (v.name, v.bitstart, v.bitlength, getattr(v.type, "type", None), v.endianess, tuple(sorted((k, str(x)) for k, x in v.extended_data.items())))
        for v in encoding
    ]


def expected_layout(env, sname, unroll, options):
    """Per leaf: geometry + the options of the signal block named like the DECLARED field the leaf
    belongs to.  The elements of an unrolled array field `arr` carry the options declared for `arr`;
    a block named like an element (`arr_0`) belongs to a field of that name, if any, never to the element."""
    opts = dict(options)
    out = []
    for leaf in reflayout.layout(env, sname, unroll):
        o = dict(opts.get(leaf.field, ()))
        geo = (leaf.name, leaf.start, leaf.width, leaf_kind(leaf.type))
        out.append(geo + (o.get("endianess", "little"), tuple(sorted((k, str(x)) for k, x in o.items()))))
    return out


def options_agree(exp, got):
    for e, g in zip(exp, got):
        if e[4] is None:
            continue
        if e[4:] != g[4:]:
            return False
    return True


def invariants(obs):
    """Model-free statement: starts at 0, tiles without gaps/overlaps, unique names."""
    errs = []
    pos = 0
    names = set()
    for name, start, width, *_ in obs:
        if start != pos:
            errs.append("gap/overlap at %s: start %d expected %d" % (name, start, pos))
        if width <= 0:
            errs.append("non-positive width at %s" % name)
        if name in names:
            errs.append("duplicate name %s" % name)
        names.add(name)
        pos = start + width
    return errs


def shape_class(st):
    from .codec import class_skeleton

    return ",".join(class_skeleton(f[2]) for f in st[1])


def make_worker(tier):
    from fcp.parser import get_fcp_from_string
    from fcp.error import Logger
    from fcp.encoding import make_encoder, PackedEncoderContext

    def work(chunk):
        S = Stats()
        h = Hoister()
        decls = []
        names = []
        for idx, (st, options) in chunk:
            name = "S%d" % idx
            d = struct_decl(name, st, h)
            decls.append(d)
            sigs = tuple((n, kv) for n, kv in options)
            decls.append(("impl", "can", name, None, (("id", idx % 2048),), sigs))
            names.append(name)
        decls = h.decls + decls
        text = print_schema(decls)
        env = refcodec.Env(decls)
        res = get_fcp_from_string(text, Logger({}))
        if not res.is_ok():
            if len(chunk) > 1:
                for it in chunk:
                    S.merge(work([it]))
                return S
            S.count("executions")
            S.violation("C04.parse", "C04.parse/rejected/" + shape_class(chunk[0][1][0]), {"text": text}, expected="accepted", actual=repr(res))
            return S
        fcp = res.unwrap()
        impls = {i.name: i for i in fcp.get_matching_impls("can")}
        for (idx, (st, options)), name in zip(chunk, names):
            S.count("states")
            for unroll in (False, True):
                S.count("executions")
                exp = expected_layout(env, name, unroll, options)
                if len(exp) >= 2:
                    S.add("nontrivial", (st, unroll, options))
                inp = {"text": text, "impl": name, "unroll": unroll, "shape": type_str(st), "options": options}
                try:
                    # 'when requested': the default context must NOT unroll (odd cases use the default constructor)
                    ctx = PackedEncoderContext() if (not unroll and idx % 2) else PackedEncoderContext().with_unroll_arrays(unroll)
                    enc = make_encoder("packed", fcp, ctx)
                    got = observe(enc.generate(impls[name]))
                except Exception as e:  # noqa
                    S.add("outcomes", "exc:" + type(e).__name__)
                    S.violation("C04.layout", "C04.layout/exception:%s/%s/unroll=%s" % (type(e).__name__, shape_class(st), unroll), inp, expected=exp, actual="%s: %s" % (type(e).__name__, str(e)[:200]))
                    continue
                S.add("outcomes", tuple((g[1], g[2]) for g in got))
                errs = invariants(got)
                if errs and all(e.startswith("duplicate name") for e in errs) and [g[0] for g in got] == [e[0] for e in exp]:
                    # the names are the documented ones (<array>_<i>), and still not unique
                    S.violation("C04.names", "C04.names/duplicate-leaf-name/unrolled-element-named-like-a-sibling-field", inp, expected="unique hierarchical names", actual={"errors": errs, "layout": got})
                elif errs:
                    S.violation("C04.tiling", "C04.tiling/%s/unroll=%s" % (shape_class(st), unroll), inp, expected="tiling from bit 0, unique names", actual={"errors": errs, "layout": got})
                geo_exp = [e[:4] for e in exp]
                geo_got = [g[:4] for g in got]
                if geo_exp != geo_got:
                    kind = "names" if [e[0] for e in exp] != [g[0] for g in got] else ("widths" if [e[2] for e in exp] != [g[2] for g in got] else "positions-or-kinds")
                    S.violation("C04.layout", "C04.layout/%s-differ/%s/unroll=%s" % (kind, shape_class(st), unroll), inp, expected=exp, actual=got)
                elif not options_agree(exp, got):
                    S.violation("C04.options", "C04.options/option-placement-differs/%s/unroll=%s" % (shape_class(st), unroll), inp, expected=exp, actual=got)
            if len(S.samples) < 2:
                S.sample({"shape": type_str(st), "options": options, "layout_unrolled": exp})
        return S

    return work


# ---------------------------------------------------------------- histories

HIST_SCHEMAS = [
    # (description, decls): three bindings, one ill-formed so generate raises half-way with a dirty cursor
    [
        ("struct", "A", (("a", 0, U(3), None, None), ("b", 1, I(13), None, None))),
        ("struct", "N", (("x", 0, U(5), None, None), ("y", 1, F32, None, None))),
        ("struct", "B", (("n", 1, ("ref", "N"), None, None), ("m", 0, Arr(U(4), 2), None, None))),
        ("struct", "X", (("p", 0, U(7), None, None), ("s", 1, ("str",), None, None), ("q", 2, U(2), None, None))),
        ("impl", "can", "A", None, (("id", 1),), (("a", (("endianess", "big"),)),)),
        ("impl", "can", "B", None, (("id", 2),), ()),
        ("impl", "can", "X", None, (("id", 3),), ()),
    ],
    [
        # bindings that share field names but declare different per-signal options
        ("struct", "A", (("a", 0, U(8), None, None), ("b", 1, U(16), None, None))),
        ("struct", "B", (("a", 0, U(8), None, None), ("b", 1, U(16), None, None), ("c", 2, U(8), None, None))),
        ("struct", "X", (("a", 0, U(16), None, None), ("s", 1, ("str",), None, None))),
        ("impl", "can", "A", None, (("id", 1),), (("b", (("endianess", "big"),)), ("a", (("mux_count", 2), ("mux_signal", "b"))))),
        ("impl", "can", "B", None, (("id", 2),), (("a", (("endianess", "big"),)),)),
        ("impl", "can", "X", None, (("id", 3),), (("a", (("endianess", "big"),)),)),
    ],
    [
        ("enum", "E", (("e0", 0), ("e1", 5))),
        ("struct", "A", (("a", 1, ("ref", "E"), None, None), ("b", 0, U(9), None, None))),
        ("struct", "B", (("c", 0, F64, None, None),)),
        ("struct", "X", (("p", 0, U(7), None, None), ("o", 1, ("opt", U(8)), None, None))),
        ("impl", "can", "A", None, (("id", 1),), (("b", (("mux_count", 2), ("mux_signal", "a"))),)),
        ("impl", "can", "B", None, (("id", 2),), (("c", (("endianess", "big"),)),)),
        ("impl", "can", "X", None, (("id", 3),), ()),
    ],
]


def run_histories(S, tier):
    from fcp.parser import get_fcp_from_string
    from fcp.error import Logger
    from fcp.encoding import make_encoder, PackedEncoderContext

    depth = 3 if tier == "quick" else 4
    for si, decls in enumerate(HIST_SCHEMAS):
        text = print_schema(decls)
        fcp = get_fcp_from_string(text, Logger({})).unwrap()
        impls = {i.name: i for i in fcp.get_matching_impls("can")}
        for unroll in (False, True):
            ctx = PackedEncoderContext().with_unroll_arrays(unroll)

            def fresh(name):
                try:
                    return ("ok", observe(make_encoder("packed", fcp, ctx).generate(impls[name])))
                except Exception as e:  # noqa
                    return ("exc", type(e).__name__)

            ref = {n: fresh(n) for n in impls}
            live = {"enc": make_encoder("packed", fcp, ctx), "results": []}

            def apply_op(op, hist):
                try:
                    r = live["enc"].generate(impls[op])
                    obs = ("ok", observe(r))
                    live["results"].append((op, r, obs))
                except Exception as e:  # noqa
                    obs = ("exc", type(e).__name__)
                # earlier results must not have been mutated by this call
                stale = [(o, snap[1], observe(rr)) for (o, rr, snap) in live["results"][:-1] if observe(rr) != snap[1]]
                return {"obs": obs, "mutated_earlier": stale}

            ops = sorted(impls)
            for hist, o in fork_histories(ops, depth, apply_op):
                S.count("states")
                S.count("transitions")
                S.count("executions")
                S.count("histories")
                S.add("nontrivial", ("hist", si, unroll, hist))
                S.add("outcomes", (o.get("obs") or ("?",))[0] if isinstance(o, dict) and "obs" in o else "err")
                inp = {"text": text, "unroll": unroll, "ops": ["gen:" + h for h in hist]}
                if "obs" not in o:
                    S.violation("harness", "harness/history-child-failed", inp, actual=o)
                    continue
                if o["obs"] != ref[hist[-1]]:
                    S.violation("C04.history", "C04.history/result-depends-on-earlier-generate/len=%d" % len(hist), inp, expected=ref[hist[-1]], actual=o["obs"])
                if o["mutated_earlier"]:
                    S.violation("C04.history", "C04.history/earlier-result-mutated", inp, expected="earlier results unchanged", actual=o["mutated_earlier"])
            if len(S.samples) < 4:
                S.sample({"history_schema": si, "ops": ops, "depth": depth, "fresh": common.jsonable(ref)})


def run_context_histories(S, tier):
    """Contexts derived from ONE kept base context (unrolling on, off, in every order of at most three derivations): the
    base and every derived context keep laying out what they were made for, whatever was derived before or after."""
    import itertools
    from fcp.parser import get_fcp_from_string
    from fcp.error import Logger
    from fcp.encoding import make_encoder, PackedEncoderContext

    for si, decls in enumerate(HIST_SCHEMAS):
        text = print_schema(decls)
        fcp = get_fcp_from_string(text, Logger({})).unwrap()
        impls = {i.name: i for i in fcp.get_matching_impls("can")}

        def lay(ctx, name):
            try:
                return ("ok", observe(make_encoder("packed", fcp, ctx).generate(impls[name])))
            except Exception as e:  # noqa
                return ("exc", type(e).__name__)

        ref = {(u, n): lay(PackedEncoderContext().with_unroll_arrays(u), n) for u in (False, True) for n in impls}
        for n_der in (1, 2, 3):
            for seq in itertools.product((False, True), repeat=n_der):
                S.count("states")
                S.count("executions")
                S.count("histories")
                S.add("nontrivial", ("ctx", si, seq))
                base = PackedEncoderContext()
                derived = [(u, base.with_unroll_arrays(u)) for u in seq]
                bad = None
                for u, ctx in derived:
                    for n in sorted(impls):
                        S.count("transitions")
                        got = lay(ctx, n)
                        if got != ref[(u, n)] and bad is None:
                            bad = (u, n, got)
                # the base itself was made without a request to unroll
                for n in sorted(impls):
                    got = lay(base, n)
                    if got != ref[(False, n)] and bad is None:
                        bad = ("base", n, got)
                S.add("outcomes", ("ctx", bad is None))
                if bad is not None:
                    S.violation("C04.history", "C04.history/layout-depends-on-contexts-derived-from-the-same-base/%s" % ("base" if bad[0] == "base" else "derived"), {"text": text, "derivations": ["with_unroll_arrays(%s)" % u for u in seq], "binding": bad[1], "context": str(bad[0])}, expected=ref[(False if bad[0] == "base" else bad[0], bad[1])], actual=bad[2])


def run(tier):
    common.bind_repo()
    r = Run("C04", tier)
    states, transitions, bounds = build_space(tier)
    cases = [(st, ()) for st in states] + option_cases(tier)
    bounds["option_cases"] = len(cases) - len(states)
    r.bounds = bounds
    work = make_worker(tier)
    for s in pmap(work, chunks(list(enumerate(cases)), 30)):
        r.stats.merge(s)
    r.stats.c["transitions"] += transitions + bounds["option_cases"]
    run_histories(r.stats, tier)
    run_context_histories(r.stats, tier)
    r.bounds["history_depth"] = 3 if tier == "quick" else 4
    r.rule = (
        "states = fixed-size struct shapes (1..3 fields, thorough 4) x every permutation of field ids, each laid out with unroll_arrays in {False,True} "
        "by the real PackedEncoder and compared with the reference layout and the model-free tiling invariant; plus signal-block option cases on every "
        "subset (<=2) of field names; plus every generate() history up to the bound on one live encoder (fork-snapshot) compared with a fresh encoder; plus every sequence of <= 3 contexts derived from one kept base context. "
        "non-trivial = layout with >= 2 leaves, or any history."
    )
    r.assumptions = ["reference layout fcpmc/reflayout.py", "an unrolled array element belongs to the array field it was unrolled from"]
    return r.finish()


def replay(doc):
    common.bind_repo()
    from fcp.parser import get_fcp_from_string
    from fcp.error import Logger
    from fcp.encoding import make_encoder, PackedEncoderContext

    inp = doc["input"]
    fcp = get_fcp_from_string(inp["text"], Logger({})).unwrap()
    impls = {i.name: i for i in fcp.get_matching_impls("can")}
    enc = make_encoder("packed", fcp, PackedEncoderContext().with_unroll_arrays(inp["unroll"]))
    ops = inp.get("ops") or ["gen:" + inp["impl"]]
    for op in ops:
        try:
            print(op, "->", observe(enc.generate(impls[op.split(":")[1]])))
        except Exception as e:  # noqa
            print(op, "raised", type(e).__name__, e)
    print("expected:", doc["expected"])
    return 0
