"""C14: CAN messages that do not fit a frame are rejected, never truncated."""

from __future__ import annotations

import contextlib
import io
import os
import re
import shutil
import tempfile

from .. import common, refcodec, reflayout, dbcread
from ..schema import U, I, F32, STR, Arr, Dyn, Opt, St, enum_with_max, Hoister, print_schema, struct_decl, type_str
from ..common import Stats, Run, pmap, chunks
from .c05 import geometry_errors

SIZES = list(range(57, 73)) + [80, 96, 128, 200]


def fillers(bits):
    out = []
    while bits > 0:
        w = min(bits, 32)
        out.append(U(w))
        bits -= w
    return out


def straws(k):
    s = [("scalar-u", U(k)), ("scalar-i", I(k)), ("nested", St(U(k))), ("nested2", St(U(1), St(U(k - 1))) if k > 1 else St(St(U(1)))), ("array-elems", Arr(U(1), k)), ("array-of-struct", Arr(St(U(k)), 1))]
    if k <= 8:
        s.append(("enum", enum_with_max((1 << k) - 1)))
    if k % 2 == 0:
        s.append(("array2", Arr(U(k // 2), 2)))
    return s


def size_cases(tier):
    out = []
    ks = (1, 3, 8) if tier == "quick" else (1, 2, 3, 5, 8, 9)
    for n in SIZES:
        for k in ks:
            if k > n:
                continue
            for label, straw in straws(k):
                fl = fillers(n - k)
                positions = {0, len(fl) // 2, len(fl)} if fl else {0}
                for pos in sorted(positions):
                    fields = fl[:pos] + [straw] + fl[pos:]
                    out.append(("size", n, label, pos, tuple(fields)))
    return out


def variable_cases(tier):
    out = []
    vars_ = [("str", STR), ("dyn", Dyn(U(8))), ("opt", Opt(U(8))), ("dyn-empty-struct", Dyn(St(U(1)))), ("opt-nested", Opt(St(U(3))))]
    for label, vt in vars_:
        wrappers = [("top", vt), ("in-struct", St(U(4), vt)), ("in-struct-first", St(vt, U(4))), ("in-array-struct", Arr(St(vt), 1)), ("array-of", Arr(vt, 2)), ("deep", St(St(St(vt))))]
        for wl, wt in wrappers:
            for pos in (0, 1, 2):
                fl = [U(8), I(5)]
                fields = fl[:pos] + [wt] + fl[pos:]
                out.append(("variable", None, label + "/" + wl, pos, tuple(fields)))
    return out


C_MACRO_RE = re.compile(r"#define (can_(?:en|de)code_signal_(\w+))\((?:msg|signal)\) \\\n\s*can_(?:en|de)code_signal_(?:as|from)_(\w+)\(\((?:msg|signal)\), (\d+), (\d+),")
C_DLC_RE = re.compile(r"CanFrame (can_encode_msg_(\w+))\([^)]*\) \{\s*CanFrame message = \{\.id = (\d+), \.dlc = (\d+)\}")


def c_geometry_errors(csrc, msg_snake):
    errs = []
    dlc = None
    for fn, name, _id, d in C_DLC_RE.findall(csrc):
        if name == msg_snake:
            dlc = int(d)
    spans = {}
    for macro, name, _typ, start, length in C_MACRO_RE.findall(csrc):
        if not name.startswith(msg_snake + "_"):
            continue
        start, length = int(start), int(length)
        spans.setdefault(("enc" if "encode" in macro else "dec"), []).append((name, start, length))
        if start + length > 64 or (dlc is not None and start + length > 8 * dlc):
            errs.append("%s: bits %d..%d exceed the frame (dlc %s)" % (macro, start, start + length - 1, dlc))
    for kind, lst in spans.items():
        occ = {}
        for name, start, length in lst:
            for b in range(start, start + length):
                if b in occ and occ[b] != name:
                    errs.append("%s signals %s and %s overlap at bit %d" % (kind, occ[b], name, b))
                    break
                occ[b] = name
    if dlc is None:
        errs.append("no encode function found for " + msg_snake)
    return errs


def make_worker(tier):
    from fcp.parser import get_fcp_from_string
    from fcp.error import Logger
    from fcp.codegen import GeneratorManager
    from fcp.verifier import make_general_verifier
    import fcp_dbc

    def work(chunk):
        S = Stats()
        for idx, (kind, n, label, pos, fields) in chunk:
            S.count("states")
            S.count("transitions")
            h = Hoister()
            st = ("st", tuple(("f%d" % i, i, t) for i, t in enumerate(fields)))
            d = struct_decl("Msg", st, h)
            other = ("struct", "Fine", (("a", 0, U(8), None, None),))
            # every third case binds the struct under another name ('impl can for Msg as MsgAlias')
            alias = "MsgAlias" if idx % 3 == 1 else None
            decls = h.decls + [other, ("impl", "can", "Fine", None, (("id", 1), ("device", "ecu")), ()), d, ("impl", "can", "Msg", alias, (("id", 2), ("device", "ecu")), ())]
            text = print_schema(decls)
            env = refcodec.Env(decls)
            fcp = get_fcp_from_string(text, Logger({})).unwrap()
            must_fail = kind == "variable" or n > 64
            S.add("nontrivial", (kind, n, label, pos))
            inp = {"text": text, "size_bits": n, "straw": label, "position": pos}
            tag = ("variable:" + label.split("/")[0]) if kind == "variable" else ("size>64" if must_fail else "size<=64")
            # ---- DBC plug-in generate
            S.count("executions")
            try:
                res = fcp_dbc.Generator().generate(fcp, {"output": "/nonexistent-out"})
                dbc_out = {r["bus"]: str(r["contents"]) for r in res}
                dbc_err = None
            except Exception as e:  # noqa
                dbc_out, dbc_err = None, "%s: %s" % (type(e).__name__, str(e)[:160])
            S.add("outcomes", ("dbc", tag, dbc_out is None))
            if must_fail:
                if dbc_out is not None:
                    described = any(m["name"] in ("Msg", "MsgAlias") for t in dbc_out.values() for m in dbcread.read(t)["messages"].values())
                    S.violation("C14.dbc", "C14.dbc/%s/%s" % ("message-emitted" if described else "no-error-reported", tag), dict(inp, generator="dbc"), expected="generation fails, message not described", actual={b: [l for l in t.split("\n") if l.startswith(("BO_", " SG_"))] for b, t in dbc_out.items()})
            else:
                if dbc_out is None:
                    S.violation("C14.dbc", "C14.dbc/fitting-message-rejected/%s" % label, dict(inp, generator="dbc"), expected="DBC generated", actual=dbc_err)
                else:
                    for t in dbc_out.values():
                        for m in dbcread.read(t)["messages"].values():
                            errs = geometry_errors(m)
                            if errs:
                                S.violation("C14.geometry", "C14.geometry/dbc/%s" % label, dict(inp, generator="dbc"), expected="signals inside the message, no overlap", actual=errs[:4])
            # ---- C generation command
            S.count("executions")
            root = tempfile.mkdtemp(prefix="fcpmc-c14-")
            try:
                out = os.path.join(root, "out")
                os.makedirs(out)
                try:
                    with contextlib.redirect_stdout(io.StringIO()):
                        r = GeneratorManager(make_general_verifier()).generate("can_c", None, None, fcp, out)
                    verdict = "ok" if r.is_ok() else "err"
                    detail = None if r.is_ok() else repr(r.err())[:160]
                except Exception as e:  # noqa
                    verdict, detail = "exception", "%s: %s" % (type(e).__name__, str(e)[:160])
                written = {}
                for fn in sorted(os.listdir(out)):
                    written[fn] = open(os.path.join(out, fn)).read()
                S.add("outcomes", ("c", tag, verdict))
                mentions = [fn for fn, t in written.items() if "CanMsgMsg" in t]  # CanMsgMsg or CanMsgMsgAlias
                if must_fail:
                    if verdict == "ok" or mentions:
                        S.violation("C14.c", "C14.c/%s/%s" % ("message-emitted" if mentions else "no-error-reported", tag), dict(inp, generator="can_c"), expected="command fails, message not described", actual={"verdict": verdict, "files": sorted(written), "mentions": mentions})
                else:
                    if verdict != "ok":
                        S.violation("C14.c", "C14.c/fitting-message-rejected/%s" % label, dict(inp, generator="can_c"), expected="C generated", actual={"verdict": verdict, "detail": detail})
                    else:
                        errs = c_geometry_errors(written.get("ecu_can.c", ""), "msg_alias" if alias else "msg") + c_geometry_errors(written.get("ecu_can.c", ""), "fine")
                        if errs:
                            S.violation("C14.geometry", "C14.geometry/c/%s" % label, dict(inp, generator="can_c"), expected="signals inside the frame, no overlap", actual=errs[:4])
            finally:
                shutil.rmtree(root, ignore_errors=True)
            if len(S.samples) < 2:
                S.sample({"size_bits": n, "straw": label, "position": pos, "struct": type_str(st), "must_fail": must_fail})
        return S

    return work


def run_cli(S, tier):
    """The generation COMMAND itself (python -m fcp generate can_c|dbc) on a slice around the limit."""
    import subprocess

    cases = [c for c in size_cases(tier) if c[1] in (64, 65, 72) and c[2] in ("scalar-u", "nested", "array-elems")][:18] + variable_cases(tier)[:6]
    for kind, n, label, pos, fields in cases:
        h = Hoister()
        st = ("st", tuple(("f%d" % i, i, t) for i, t in enumerate(fields)))
        decls = h.decls + [struct_decl("Msg", st, h), ("impl", "can", "Msg", None, (("id", 2), ("device", "ecu")), ())]
        decls = h.decls + [d for d in decls if d not in h.decls]
        text = print_schema(decls)
        must_fail = kind == "variable" or n > 64
        for gen in ("can_c", "dbc"):
            root = tempfile.mkdtemp(prefix="fcpmc-c14c-")
            try:
                src = os.path.join(root, "main.fcp")
                open(src, "w").write(text)
                out = os.path.join(root, "out")
                os.makedirs(out)
                p = subprocess.run([common.PYTHON, "-m", "fcp", "generate", gen, src, out], env=common.subprocess_env(), stdout=subprocess.PIPE, stderr=subprocess.PIPE, text=True, timeout=120)
                S.count("states")
                S.count("transitions")
                S.count("executions")
                S.add("nontrivial", ("cli", gen, n, label, pos))
                files = sorted(os.listdir(out))
                reported = "Error" in p.stdout or p.returncode != 0 or "Traceback" in p.stderr
                S.add("outcomes", ("cli", gen, must_fail, reported, bool(files)))
                inp = {"text": text, "cli": "python -m fcp generate %s main.fcp out" % gen, "size_bits": n, "straw": label}
                if must_fail and (files or not reported):
                    S.violation("C14.cli", "C14.cli/%s/%s" % ("files-written" if files else "no-error-reported", gen), inp, expected="error, nothing written", actual={"files": files, "stdout": p.stdout[-300:], "stderr": p.stderr[-300:]})
                if not must_fail and (reported or not files):
                    S.violation("C14.cli", "C14.cli/fitting-message-rejected/%s" % gen, inp, expected="files", actual={"files": files, "stdout": p.stdout[-300:], "stderr": p.stderr[-300:]})
            finally:
                shutil.rmtree(root, ignore_errors=True)


def extra_cases(S, tier):
    """(a) multiplexed bindings whose selector is the LAST field and whose size is around the limit;
    (b) 'endianess: big' on fields that are not byte-aligned / not whole bytes: either generation fails or
    what is emitted must satisfy the geometric invariant."""
    from fcp.parser import get_fcp_from_string
    from fcp.error import Logger
    from fcp.codegen import GeneratorManager
    from fcp.verifier import make_general_verifier
    import fcp_dbc

    cases = []
    for widths in ((32, 24, 8), (32, 32, 8), (32, 31, 2), (16, 48, 1), (64, 8), (60, 5), (32, 16, 8)):
        n = len(widths)
        decl = ("struct", "Msg", tuple(("f%d" % i, i, U(w), None, None) for i, w in enumerate(widths)))
        sig = tuple(("f%d" % i, (("mux_signal", "f%d" % (n - 1)), ("mux_count", 2))) for i in range(n - 1))
        cases.append(("mux-selector-last", sum(widths), [decl, ("impl", "can", "Msg", None, (("id", 2), ("device", "ecu")), sig)]))
    # the selector FIRST and the multiplexed signals at the end of the message (every one after the selector, or only the
    # last one): what lies beyond bit 64 is then multiplexed - each multiplexed signal still has a slot of its own
    for widths in ((8, 32, 24), (8, 32, 32), (8, 56), (8, 57), (1, 64), (2, 31, 32), (8, 24, 24, 16), (4, 60), (4, 30, 30)):
        n = len(widths)
        decl = ("struct", "Msg", tuple(("f%d" % i, i, U(w), None, None) for i, w in enumerate(widths)))
        for muxed in (tuple(range(1, n)), (n - 1,)):
            sig = tuple(("f%d" % i, (("mux_signal", "f0"), ("mux_count", 2))) for i in muxed)
            cases.append(("mux-selector-first", sum(widths), [decl, ("impl", "can", "Msg", None, (("id", 2), ("device", "ecu")), sig)]))
    for fields, big in (((U(4), U(16)), (1,)), ((U(4), U(16), U(8)), (1,)), ((U(32), U(16), U(12), U(4)), (3,)), ((U(3), U(12)), (1,)), ((U(8), U(12), U(4)), (1,)), ((U(1), U(32), U(31)), (1, 2))):
        decl = ("struct", "Msg", tuple(("f%d" % i, i, t, None, None) for i, t in enumerate(fields)))
        sig = tuple(("f%d" % i, (("endianess", "big"),)) for i in big)
        cases.append(("big-endian-odd", sum(t[1] for t in fields), [decl, ("impl", "can", "Msg", None, (("id", 2), ("device", "ecu")), sig)]))
    # (c) the same odd big-endian placements behind a multiplexing relation, which a DBC library's own overlap
    # check does not follow: selector in a nested struct, mux_signal without mux_count, selector that does not exist
    sensor = ("struct", "Sensor", (("sensor_id", 0, U(4), None, None), ("reading", 1, U(12), None, None)))
    report = ("struct", "Msg", (("counter", 0, U(48), None, None), ("sensor", 1, ("ref", "Sensor"), None, None)))
    flat = ("struct", "Msg", (("kind", 0, U(4), None, None), ("level", 1, U(12), None, None), ("stamp", 2, U(48), None, None)))
    flat2 = ("struct", "Msg", (("stamp", 0, U(48), None, None), ("kind", 1, U(4), None, None), ("level", 2, U(12), None, None)))
    big = ("endianess", "big")
    for label, decl_list, sig in (
        ("nested-selector", [sensor, report], (("reading", (("mux_count", 4), ("mux_signal", "sensor_id"), big)),)),
        ("mux-without-count", [flat], (("level", (("mux_signal", "kind"), big)),)),
        ("mux-without-count-last", [flat2], (("level", (("mux_signal", "kind"), big)),)),
        ("unknown-selector", [flat], (("level", (("mux_signal", "nope"), ("mux_count", 2), big)),)),
        ("unknown-selector-last", [flat2], (("level", (("mux_signal", "nope"), ("mux_count", 2), big)),)),
        ("valid-mux", [flat2], (("level", (("mux_signal", "kind"), ("mux_count", 2), big)),)),
        ("count-without-selector", [flat2], (("level", (("mux_count", 2), big)),)),
    ):
        cases.append(("big-endian-odd-muxed:" + label, 64, decl_list + [("impl", "can", "Msg", None, (("id", 2), ("device", "ecu")), sig)]))
    # (d) messages over 64 bits whose excess lies in byte-aligned BIG-endian fields (a size check that is only
    # applied on the little-endian path would let them through)
    for widths, bigs in (((64, 8), (1,)), ((32, 32, 8), (2,)), ((32, 32, 16), (1, 2)), ((64, 32, 32), (1, 2)), ((8, 64), (1,)), ((64, 8), (0, 1)), ((32, 16, 16, 8), (3,))):
        decl = ("struct", "Msg", tuple(("f%d" % i, i, U(w), None, None) for i, w in enumerate(widths)))
        sig = tuple(("f%d" % i, (big,)) for i in bigs)
        cases.append(("oversize-big-endian", sum(widths), [decl, ("impl", "can", "Msg", None, (("id", 2), ("device", "ecu")), sig)]))
    inner = ("struct", "In", (("a", 0, U(32), None, None), ("b", 1, U(16), None, None)))
    outer = ("struct", "Msg", (("h", 0, U(32), None, None), ("n", 1, ("ref", "In"), None, None)))
    cases.append(("oversize-big-endian", 80, [inner, outer, ("impl", "can", "Msg", None, (("id", 2), ("device", "ecu")), (("b", (big,)),))]))
    # enums at the edges of their width: a single enumerator 0 is one bit wide, 2^k needs k+1 bits (also where floats stop being exact)
    for label, fields, bits in (
        ("single-valued", (U(64), enum_with_max(0)), 65),
        ("single-valued", (enum_with_max(0), U(32), U(32)), 65),
        ("single-valued-fits", (U(63), enum_with_max(0)), 64),
        ("2^53", (enum_with_max(1 << 53), U(11)), 65),
        ("2^53-fits", (enum_with_max(1 << 53), U(10)), 64),
        ("2^49", (U(15), enum_with_max(1 << 49)), 65),
        ("2^63", (enum_with_max(1 << 63), U(1)), 65),
        ("2^63-fits", (enum_with_max(1 << 63),), 64),
    ):
        h2 = Hoister()
        decl = struct_decl("Msg", ("st", tuple(("f%d" % i, i, t) for i, t in enumerate(fields))), h2)
        cases.append(("enum-width-edge:" + label, bits, h2.decls + [decl, ("impl", "can", "Msg", None, (("id", 2), ("device", "ecu")), ())]))
    # oversize structs bound to a protocol whose name differs from 'can' only in case: whether that counts as a CAN binding
    # is the front end's business, but whoever describes the message has to measure it first
    for proto in ("CAN", "Can", "cAN"):
        for widths in ((64, 8), (32, 32, 8)):
            decl = ("struct", "Msg", tuple(("f%d" % i, i, U(w), None, None) for i, w in enumerate(widths)))
            cases.append(("protocol-spelled-" + proto, sum(widths), [decl, ("impl", proto, "Msg", None, (("id", 2), ("device", "ecu")), ())]))
    for kind, bits, decls in cases:
        text = print_schema(decls)
        fcp = get_fcp_from_string(text, Logger({})).unwrap()
        S.count("states")
        S.count("transitions")
        S.add("nontrivial", (kind, text))
        inp = {"text": text, "size_bits": bits, "kind": kind}
        S.count("executions")
        try:
            res = {r["bus"]: str(r["contents"]) for r in fcp_dbc.Generator().generate(fcp, {"output": "/nonexistent-out"})}
        except Exception:  # noqa
            res = None
        S.add("outcomes", (kind, "dbc", res is None))
        if res is not None:
            described = [l for t in res.values() for l in t.split("\n") if l.startswith(("BO_ ", " SG_"))]
            if bits > 64 and (described or not kind.startswith("protocol-spelled-")):
                S.violation("C14.dbc", "C14.dbc/message-emitted/size>64/%s" % kind, dict(inp, generator="dbc"), expected="generation fails", actual=described)
            for t in res.values():
                for m in dbcread.read(t)["messages"].values():
                    errs = geometry_errors(m)
                    if errs:
                        S.violation("C14.geometry", "C14.geometry/dbc/%s" % kind, dict(inp, generator="dbc"), expected="signals inside the message, no overlap", actual=errs[:4])
        S.count("executions")
        root = tempfile.mkdtemp(prefix="fcpmc-c14x-")
        try:
            out = os.path.join(root, "out")
            os.makedirs(out)
            try:
                with contextlib.redirect_stdout(io.StringIO()):
                    r = GeneratorManager(make_general_verifier()).generate("can_c", None, None, fcp, out)
                verdict = "ok" if r.is_ok() else "err"
            except Exception:  # noqa
                verdict = "exception"
            written = {fn: open(os.path.join(out, fn)).read() for fn in sorted(os.listdir(out))}
            S.add("outcomes", (kind, "c", verdict))
            if bits > 64 and ((verdict == "ok" and not kind.startswith("protocol-spelled-")) or any("CanMsgMsg" in t for t in written.values())):
                S.violation("C14.c", "C14.c/message-emitted/size>64/%s" % kind, dict(inp, generator="can_c"), expected="command fails", actual={"verdict": verdict, "files": sorted(written)})
            if verdict == "ok" and not (kind.startswith("protocol-spelled-") and not any("CanMsgMsg" in t for t in written.values())):
                errs = c_geometry_errors(written.get("ecu_can.c", ""), "msg")
                if errs:
                    S.violation("C14.geometry", "C14.geometry/c/%s" % kind, dict(inp, generator="can_c"), expected="signals inside the frame, no overlap", actual=errs[:4])
        finally:
            shutil.rmtree(root, ignore_errors=True)


def run(tier):
    common.bind_repo()
    r = Run("C14", tier)
    cases = size_cases(tier) + variable_cases(tier)
    r.bounds = {"size_cases": len(size_cases(tier)), "variable_cases": len(variable_cases(tier)), "sizes": SIZES}
    for s in pmap(make_worker(tier), chunks(list(enumerate(cases)), 25)):
        r.stats.merge(s)
    extra_cases(r.stats, tier)
    run_cli(r.stats, tier)
    r.rule = (
        "states = CAN bindings of every packed size in 57..72, 80, 96, 128, 200 bits with the 'last straw' (1,3,8 bits; thorough also 2,5,9) as a top-level scalar, a (doubly) nested struct field, array elements, "
        "an array of structs or an enum, at the first/middle/last field position; plus every placement of a str / dynamic array / optional field (top, in a nested struct, first, in an array element, array of, 3 levels deep). "
        "Each runs through fcp_dbc.Generator().generate and through GeneratorManager.generate('can_c') on a scratch directory. Oracle: > 64 bits or variable size => error and no description of that message; "
        "<= 64 => generated and every emitted signal lies inside its message without overlap (DBC SG_ lines and C encode/decode macros). all states non-trivial."
    )
    r.assumptions = ["an exception counts as failing with an error"]
    return r.finish()


def replay(doc):
    from .c05 import replay as r5

    return r5(doc)
