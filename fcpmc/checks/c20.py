"""C20: module imports are transparent; errors inside modules name the module."""

from __future__ import annotations

import itertools
import json
import os
import shutil
import tempfile

from .. import common
from ..schema import U, I, F32, Arr, Dyn, Opt, print_schema
from ..common import Stats, Run, pmap, chunks

BASES = {
    "chain": [
        ("enum", "E", (("e0", 0), ("e1", 3))),
        ("struct", "A", (("e", 0, ("ref", "E"), None, None), ("k", 1, U(5), None, None))),
        ("struct", "S", (("a", 0, Opt(("ref", "A")), "m", (0.0, 1.0)), ("v", 1, Dyn(U(8)), None, None))),
        ("impl", "can", "S", "Sx", (("id", 10), ("bus", "b1")), (("a", (("mux_count", 2),)),)),
        ("service", "Svc", 1, (("get", 0, "S", "A"),)),
        ("device", "ecu", (("services", [("id", "Svc")]), ("addr", 7))),
    ],
    "bind": [
        ("struct", "S", (("x", 0, U(8), None, None), ("y", 1, I(16), None, None))),
        ("impl", "can", "S", None, (("id", 5), ("bus", "b2")), (("y", (("endianess", "big"),)),)),
        ("impl", "uart", "S", "Su", (("baud", 9600),), ()),
        ("struct", "T", (("s", 0, ("ref", "S"), None, None),)),
        ("impl", "can", "T", None, (("id", 6),), ()),
    ],
    "flat": [
        ("struct", "P", (("x", 0, U(8), None, None),)),
        ("struct", "Q", (("y", 0, Arr(("ref", "P"), 2), None, None),)),
        ("enum", "F", (("f0", 0),)),
        ("service", "T", 0, (("m", 0, "P", "Q"), ("n", 1, "Q", "P"))),
        ("device", "d", (("k", "v"),)),
    ],
}


def type_refs(d):
    out = set()

    def walk(t):
        if t[0] == "ref":
            out.add(t[1])
        elif t[0] in ("arr", "dyn", "opt"):
            walk(t[1])

    if d[0] == "struct":
        for f in d[2]:
            walk(f[2])
    return out


def declares(d):
    return d[1] if d[0] in ("struct", "enum") else None


PATHS = {"flat": ("m1", "m2"), "dotted": ("sub.m1", "sub.m2"), "deep": ("sub.deep.m1", "sub.deep.m2"), "samebase": ("left.types", "right.types"), "mixed": ("sub.m1", "m2")}


def splits(base, tier):
    """Yield (label, files{relpath: decl list}) for every closed assignment/topology/mod position."""
    n = len(base)
    names = {declares(d): i for i, d in enumerate(base) if declares(d)}
    deps = [set(names[r] for r in type_refs(d) if r in names) for d in base]
    out = []
    for assign in itertools.product((0, 1, 2), repeat=n):
        if all(a == 0 for a in assign):
            continue
        for topo in ("star", "chain"):
            # visibility: star: m1 sees m1, m2 sees m2; chain: m2 sees m2, m1 sees m1+m2; main sees all
            def visible(f):
                if f == 0:
                    return {0, 1, 2}
                if topo == "star":
                    return {f}
                return {1, 2} if f == 1 else {2}

            ok = True
            for i in range(n):
                for j in deps[i]:
                    if assign[j] not in visible(assign[i]):
                        ok = False
                    # inside one file declaration order is the base order (j < i always holds in BASES)
            if not ok:
                continue
            if topo == "chain" and not any(a == 2 for a in assign):
                continue  # identical to star without m2
            has = {f: any(a == f for a in assign) for f in (1, 2)}
            main_idx = [i for i in range(n) if assign[i] == 0]

            def trans_members(f):
                if topo == "chain" and f == 1:
                    return {i for i in range(n) if assign[i] in (1, 2)}
                return {i for i in range(n) if assign[i] == f}

            def first_need(f):
                mem = trans_members(f)
                for pos, i in enumerate(main_idx):
                    if deps[i] & mem:
                        return pos
                return len(main_idx)

            imports_main = [1] if topo == "chain" else [f for f in (1, 2) if has[f]]
            pos_choices = []
            for f in imports_main:
                fn = first_need(f)
                cand = sorted(set([0, fn] + ([fn // 2] if tier != "quick" else []) + ([len(main_idx)] if fn == len(main_idx) else [])))
                pos_choices.append([p for p in cand if p <= fn])
            for pathvar in ("flat", "dotted", "deep", "samebase", "mixed") if tier != "quick" else ("flat", "deep", "samebase", "mixed"):
                p1, p2 = PATHS[pathvar]
                if topo == "chain" and pathvar in ("samebase", "mixed"):
                    continue
                for positions in itertools.product(*pos_choices):
                    main = [base[i] for i in main_idx]
                    inserts = sorted(zip(positions, imports_main), key=lambda x: (-x[0], -x[1]))
                    for p, f in inserts:
                        main.insert(p, ("mod", p1 if f == 1 else p2))
                    files = {"main": main}
                    m1 = [base[i] for i in range(n) if assign[i] == 1]
                    m2 = [base[i] for i in range(n) if assign[i] == 2]
                    if topo == "chain":
                        # m1 imports m2 relative to m1's own directory
                        files[p1.replace(".", "/")] = [("mod", "m2")] + m1
                        files[p1.replace(".", "/").rsplit("/", 1)[0] + "/m2" if "/" in p1.replace(".", "/") else "m2"] = m2
                    else:
                        if has[1]:
                            files[p1.replace(".", "/")] = m1
                        if has[2]:
                            files[p2.replace(".", "/")] = m2
                    out.append(({"assign": assign, "topo": topo, "paths": pathvar, "mod_positions": positions}, files))
                    if topo == "chain" and pathvar in ("flat", "deep"):
                        # diamond: main imports m2 itself as well, before or after the module that imports it too
                        m2mod = (p1.rsplit(".", 1)[0] + ".m2") if "." in p1 else "m2"
                        for where in ("first", "last"):
                            f2 = dict(files)
                            f2["main"] = ([("mod", m2mod)] + main) if where == "first" else (main + [("mod", m2mod)])
                            out.append(({"assign": assign, "topo": "diamond-" + where, "paths": pathvar, "mod_positions": positions}, f2))
    return out


def write_tree(td, files):
    texts = {}
    for name, decls in files.items():
        p = os.path.join(td, name + ".fcp")
        os.makedirs(os.path.dirname(p), exist_ok=True)
        if isinstance(decls, bytes):
            texts[name + ".fcp"] = decls.decode("latin-1")
            with open(p, "wb") as f:
                f.write(decls)
            continue
        text = decls if isinstance(decls, str) else print_schema(decls)
        texts[name + ".fcp"] = text
        with open(p, "w") as f:
            f.write(text)
    return texts


def multiset(tree):
    return {cat: sorted(json.dumps(x, sort_keys=True) for x in tree[cat]) for cat in ("structs", "enums", "impls", "services", "devices")}


ERRORS = ("syntax", "truncated", "undeclared", "missing", "undecodable", "too-deep")


def inject(files, modname, kind):
    f2 = {k: (v if isinstance(v, (str, bytes)) else print_schema(v)) for k, v in files.items()}
    text = f2[modname]
    if kind == "syntax":
        f2[modname] = text + "\nstruct { oops\n"
    elif kind == "truncated":
        # cut right after the last opening brace (always unbalanced); a brace-less module loses its last token
        f2[modname] = text[: text.rindex("{") + 1] if "{" in text else text.rstrip()[:-1]
    elif kind == "undeclared":
        f2[modname] = text + "\nstruct Bad { z @0: Zz, }\n"
    elif kind == "missing":
        del f2[modname]
    elif kind == "undecodable":
        # the module saved in a legacy 8-bit code page: a degree sign is not valid UTF-8
        f2[modname] = (text + '\nstruct Deg { t @0: u8 | unit("\u00b0C"), }\n').encode("cp1252")
    elif kind == "too-deep":
        f2[modname] = text + "\nstruct Deep { d @0: " + "[" * 400 + "u8" + "]" * 400 + ", }\n"
    return f2


def make_worker(tier):
    from fcp.parser import get_fcp, get_fcp_from_string
    from fcp.error import Logger

    def parse_tree(files):
        from .c08 import _worker_dir

        td = _worker_dir()  # same paths for consecutive cases of this worker (see c08)
        for fn in os.listdir(td):
            p = os.path.join(td, fn)
            shutil.rmtree(p) if os.path.isdir(p) else os.remove(p)
        try:
            texts = write_tree(td, files)
            logger = Logger({})
            try:
                r = get_fcp(os.path.join(td, "main.fcp"), logger)
            except Exception as e:  # noqa
                return texts, None, "exception %s: %s" % (type(e).__name__, str(e)[:300]), None
            if r.is_err():
                try:
                    rendered = logger.error(r.err())
                except Exception as e:  # noqa
                    rendered = "RENDER-EXC %s" % type(e).__name__
                return texts, None, "\n".join(str(m) for m, _n, _w in r.err().msg), rendered
            return texts, r.unwrap().to_dict(), None, None
        finally:
            pass

    def work(chunk):
        S = Stats()
        for idx, (bname, label, files, mode) in chunk:
            S.count("states")
            S.count("transitions")
            S.count("executions")
            base = BASES[bname]
            if mode is None:
                S.add("nontrivial", idx)
                single = get_fcp_from_string(print_schema(base), Logger({})).unwrap().to_dict()
                texts, tree, err, _ = parse_tree(files)
                inp = {"files": texts, "split": label, "base": bname}
                moved = sorted({base[i][0] for i, a in enumerate(label["assign"]) if a})
                if tree is None:
                    S.add("outcomes", "split-rejected")
                    S.violation("C20.split", "C20.split/rejected/%s/%s" % (label["topo"], label["paths"]), inp, expected="same declarations as the single file", actual=err)
                    continue
                if idx % 5 == 0:
                    # the other entry point: main.fcp's TEXT parsed from a string, modules resolved from the working directory
                    from .c08 import _worker_dir

                    S.count("executions")
                    cwd = os.getcwd()
                    os.chdir(_worker_dir())
                    try:
                        try:
                            rs = get_fcp_from_string(texts["main.fcp"], Logger({}))
                            ts = rs.unwrap().to_dict() if rs.is_ok() else "Err: " + "; ".join(str(m) for m, _n, _w in rs.err().msg)[:300]
                        except Exception as e:  # noqa
                            ts = "exception %s" % type(e).__name__
                    finally:
                        os.chdir(cwd)
                    if not isinstance(ts, dict) or multiset(ts) != multiset(tree):
                        S.add("outcomes", "string-entry-differs")
                        S.violation("C20.split", "C20.split/string-entry-point-differs-from-file/%s" % ("rejected" if not isinstance(ts, dict) else "declarations"), inp, expected="the tree get_fcp gives", actual=ts if not isinstance(ts, dict) else multiset(ts))
                    if label["topo"] == "star" and label["paths"] == "flat" and "m1.fcp" in texts and "mod m1;" in texts["main.fcp"]:
                        # the text of a string has no place on disk: a module that happens to be called main.fcp is a module like any other
                        S.count("executions")
                        sd = os.path.join(_worker_dir(), "strmain")
                        os.makedirs(sd, exist_ok=True)
                        open(os.path.join(sd, "main.fcp"), "w").write(texts["m1.fcp"])
                        if "m2.fcp" in texts:
                            open(os.path.join(sd, "m2.fcp"), "w").write(texts["m2.fcp"])
                        stext = texts["main.fcp"].replace("mod m1;", "mod main;")
                        os.chdir(sd)
                        try:
                            try:
                                rs = get_fcp_from_string(stext, Logger({}))
                                ts = rs.unwrap().to_dict() if rs.is_ok() else "Err: " + "; ".join(str(m) for m, _n, _w in rs.err().msg)[:300]
                            except Exception as e:  # noqa
                                ts = "exception %s" % type(e).__name__
                        finally:
                            os.chdir(cwd)
                        if not isinstance(ts, dict) or multiset(ts) != multiset(tree):
                            S.add("outcomes", "string-entry-module-called-main-differs")
                            S.violation("C20.split", "C20.split/string-entry-point-importing-a-module-called-main/%s" % ("rejected" if not isinstance(ts, dict) else "declarations"), dict(inp, text=stext, module_main=texts["m1.fcp"]), expected="the tree get_fcp gives for the same split with the module called m1", actual=ts if not isinstance(ts, dict) else multiset(ts))
                ms, mt = multiset(single), multiset(tree)
                bad = [c for c in ms if ms[c] != mt[c]]
                if bad:
                    S.add("outcomes", "differs:" + ",".join(bad))
                    S.violation("C20.split", "C20.split/declarations-differ/%s/moved=%s" % (",".join(bad), "+".join(k for k in moved if k[:-1] + "s" in bad or k + "s" in bad or (k == "impl" and "impls" in bad)) or "none"), inp, expected={c: ms[c] for c in bad}, actual={c: mt[c] for c in bad})
                else:
                    S.add("outcomes", "equal")
                if len(S.samples) < 2:
                    S.sample({"split": label, "files": texts})
            else:
                modname, kind = mode
                S.add("nontrivial", idx)
                f2 = inject(files, modname, kind)
                texts, tree, err, rendered = parse_tree(f2)
                inp = {"files": texts, "split": label, "base": bname, "op": "inject %s into %s" % (kind, modname)}
                fname = os.path.basename(modname) + ".fcp"
                if tree is not None:
                    S.add("outcomes", "accepted-broken-module")
                    S.violation("C20.error", "C20.error/accepted/%s" % kind, inp, expected="Err naming " + fname, actual=tree)
                elif err.startswith("exception"):
                    S.add("outcomes", "exception")
                    S.violation("C20.error", "C20.error/exception-escapes/%s/%s" % (kind, err.split(":")[0].split()[-1]), inp, expected="Err naming " + fname, actual=err)
                elif fname not in err:
                    # the error VALUE names the module: in its messages, not only in the location tag a renderer may add
                    S.add("outcomes", "err-unnamed-in-messages")
                    S.violation("C20.error", "C20.error/module-not-named-in-the-error-messages/%s" % kind, inp, expected="Err whose messages name " + fname, actual={"messages": err, "rendered": rendered})
                elif fname not in err and fname not in (rendered or ""):
                    S.add("outcomes", "err-unnamed")
                    S.violation("C20.error", "C20.error/module-not-named/%s" % kind, inp, expected="Err naming " + fname, actual={"messages": err, "rendered": rendered})
                else:
                    S.add("outcomes", "err-named")
        return S

    return work


def graph_cases(tier, with_refs=False):
    """Import graphs over the files {main, a, b, c}: every file declares one struct and imports an ordered list
    (repeats allowed) of the files after it, so the graph is acyclic.  At most one file also REFERS to the struct
    of another file.  Model: a file sees its own declarations and everything its imports see (transitively) - not
    what its importer or a sibling saw.  The split equals the single file that declares the reachable structs,
    each exactly once; a reference to a struct the file cannot see makes the parse an error."""
    def ordered_subsets(items, maxlen):
        out = [()]
        for n in range(1, maxlen + 1):
            out += list(itertools.permutations(items, n))
        return out

    def build(names, lists_of, ref_from=None):
        per_file = [lists_of(i, nm, names[i + 1 :]) for i, nm in enumerate(names)]
        refs = [None] + ([(f, t) for f in (ref_from or names) for t in names if f != t and not (ref_from and t == "main")] if with_refs else [])
        res = []
        for combo in itertools.product(*per_file):
            g = dict(zip(names, combo))
            for ref in refs:
                res.append((g, ref))
        return res

    four = ["main", "a", "b", "c"]
    if tier == "quick":
        # ordered subsets, plus a module written twice
        out = build(four, lambda i, nm, later: ordered_subsets(later, 3 if nm == "main" else 2) + [(x, x) for x in later])
        if with_refs:
            # five files: main imports three of them in any order, the others at most two / one later ones
            out += build(["main", "a", "b", "c", "d"], lambda i, nm, later: list(itertools.permutations(later, 3)) if nm == "main" else ordered_subsets(later, 2 if nm == "a" else 1), ref_from=("a", "b", "c"))
        return out
    # thorough: every ordered list with repeats over four files, and ordered subsets over five
    full = build(four, lambda i, nm, later: [()] + [t for n in range(1, (3 if nm == "main" else 2) + 1) for t in itertools.product(later, repeat=n)] + ([(x, x, x) for x in later] if nm != "main" else []))
    five = build(["main", "a", "b", "c", "d"], lambda i, nm, later: ordered_subsets(later, 3 if nm == "main" else 2))
    return full + five


def run_graphs(S, tier, prop="C20", with_refs=False):
    import shutil
    import tempfile
    from fcp.parser import get_fcp
    from fcp.error import Logger

    def reach(g, start):
        seen, todo = [], [start]
        while todo:
            x = todo.pop()
            if x not in seen:
                seen.append(x)
                todo += list(g[x])
        return seen

    def work(chunk):
        S2 = Stats()
        td = tempfile.mkdtemp(prefix="fcpmc-c20g-")
        k_case = 0
        try:
            for g, ref in chunk:
                S2.count("states")
                S2.count("transitions")
                S2.count("executions")
                S2.add("nontrivial", (tuple(sorted(g.items())), ref))
                texts = {}
                for nm, imports in g.items():
                    extra = ", r @1: S_%s" % ref[1] if ref and ref[0] == nm else ""
                    texts[nm + ".fcp"] = 'version: "3"\n' + "".join("mod %s;\n" % i for i in imports) + "struct S_%s { x @0: u8%s, }\n" % (nm, extra)
                    open(os.path.join(td, nm + ".fcp"), "w").write(texts[nm + ".fcp"])
                r_main = reach(g, "main")
                visible_ok = ref is None or ref[0] not in r_main or (ref[1] in reach(g, ref[0]))
                inp = {"files": texts, "family": "import-graph", "graph": {k: list(v) for k, v in g.items()}, "reference": list(ref) if ref else None}
                try:
                    # every other case goes through the logger the entry point creates by default: it lives as long as the
                    # process, and the files of consecutive cases have the same paths and other contents
                    k_case += 1
                    res = get_fcp(os.path.join(td, "main.fcp"), Logger({})) if k_case % 2 else get_fcp(os.path.join(td, "main.fcp"))
                    inp["logger"] = "fresh" if k_case % 2 else "the entry point's default, used by the cases before"
                except Exception as e:  # noqa
                    S2.violation(prop + ".graph", prop + ".graph/exception:%s" % type(e).__name__, inp, expected="Ok" if visible_ok else "Err", actual=str(e)[:200])
                    continue
                if not visible_ok:
                    if res.is_ok():
                        S2.add("outcomes", "graph-accepted-invisible-reference")
                        S2.violation(prop + ".graph", prop + ".graph/reference-to-a-declaration-the-file-never-imported-is-accepted", inp, expected="Err: %s.fcp imports nothing that declares S_%s" % ref, actual=sorted(st.name for st in res.unwrap().structs))
                    else:
                        S2.add("outcomes", "graph-err-expected")
                    continue
                if res.is_err():
                    S2.add("outcomes", "graph-err")
                    first = res.err().msg[0][0]
                    S2.violation(prop + ".graph", prop + ".graph/acyclic-import-graph-rejected/%s" % ("Cyclic-import" if "Cyclic" in first else "cannot-be-found" if "cannot be found" in first else "other"), inp, expected="Ok: structs of " + ",".join(sorted(r_main)), actual=[m[0] for m in res.err().msg])
                    continue
                got = sorted(st.name for st in res.unwrap().structs)
                want = sorted("S_" + x for x in r_main)
                if got != want:
                    S2.add("outcomes", "graph-differs")
                    S2.violation(prop + ".graph", prop + ".graph/declarations-differ/%s" % ("duplicated" if len(got) > len(set(got)) else "missing-or-extra"), inp, expected=want, actual=got)
                else:
                    S2.add("outcomes", "graph-ok:%d" % len(want))
        finally:
            shutil.rmtree(td, ignore_errors=True)
        return S2

    gs = graph_cases(tier, with_refs)
    for s2 in pmap(work, chunks(gs, 400)):
        S.merge(s2)
    run_symlinked(S, prop)
    return len(gs)


def run_symlinked(S, prop):
    """One module file reachable under two spellings (through a symbolic link to its directory, or to the file): it is ONE
    module - declared once in the result, whichever spellings the import statements use and in whichever order."""
    import shutil
    import tempfile
    from fcp.parser import get_fcp
    from fcp.error import Logger

    T = 'version: "3"\nenum Unit { v = 0, a = 1, }\nstruct Types { u @0: Unit, }\n'
    ST = 'version: "3"\nmod types;\nstruct Status { t @0: Types, }\n'
    layouts = {
        "dir-link": {"files": {"common/types.fcp": T, "common/status.fcp": ST}, "links": {"vendor": "common"}},
        "file-link": {"files": {"common/types.fcp": T, "common/status.fcp": ST}, "links": {"common/kinds.fcp": "types.fcp"}},
    }
    mains = {
        "dir-link": [("common.types", "vendor.status"), ("vendor.status", "common.types"), ("vendor.types", "common.types"), ("common.status", "vendor.status"), ("vendor.types", "vendor.status", "common.status")],
        "file-link": [("common.types", "common.kinds"), ("common.kinds", "common.status"), ("common.status", "common.kinds")],
    }
    for lname, lay in layouts.items():
        for imports in mains[lname]:
            S.count("states")
            S.count("transitions")
            S.count("executions")
            S.add("nontrivial", ("symlinked", lname, imports))
            td = tempfile.mkdtemp(prefix="fcpmc-c20s-")
            try:
                for fn, body in lay["files"].items():
                    os.makedirs(os.path.dirname(os.path.join(td, fn)), exist_ok=True)
                    open(os.path.join(td, fn), "w").write(body)
                for ln, target in lay["links"].items():
                    os.symlink(target, os.path.join(td, ln))
                main = 'version: "3"\n' + "".join("mod %s;\n" % i for i in imports) + "struct Main { x @0: u8, }\n"
                open(os.path.join(td, "main.fcp"), "w").write(main)
                inp = {"files": dict(lay["files"], **{"main.fcp": main}), "symbolic_links": lay["links"], "family": "symlinked"}
                try:
                    res = get_fcp(os.path.join(td, "main.fcp"), Logger({}))
                except Exception as e:  # noqa
                    S.violation(prop + ".graph", prop + ".graph/exception:%s" % type(e).__name__, inp, expected="Ok", actual=str(e)[:200])
                    continue
                if res.is_err():
                    S.add("outcomes", "symlinked-err")
                    S.violation(prop + ".graph", prop + ".graph/one-module-under-two-spellings/rejected", inp, expected="Ok", actual=[m[0] for m in res.err().msg])
                    continue
                got = sorted([st.name for st in res.unwrap().structs] + [e.name for e in res.unwrap().enums])
                want = sorted(["Main", "Types", "Unit"] + (["Status"] if any(i.endswith("status") for i in imports) else []))
                if got != want:
                    S.add("outcomes", "symlinked-differs")
                    S.violation(prop + ".graph", prop + ".graph/one-module-under-two-spellings/%s" % ("duplicated" if len(got) > len(set(got)) else "missing-or-extra"), inp, expected=want, actual=got)
                else:
                    S.add("outcomes", "symlinked-ok")
            finally:
                shutil.rmtree(td, ignore_errors=True)


def run(tier):
    common.bind_repo()
    r = Run("C20", tier)
    cases = []
    nsplit = 0
    for bname, base in BASES.items():
        sp = splits(base, tier)
        nsplit += len(sp)
        for k, (label, files) in enumerate(sp):
            cases.append((bname, label, files, None))
            if tier == "quick" and k % 8:
                continue
            for modname in files:
                if modname == "main":
                    continue
                for kind in ERRORS:
                    cases.append((bname, label, files, (modname, kind)))
    r.bounds = {"splits": nsplit, "error_cases": len(cases) - nsplit, "bases": list(BASES), "topologies": ["star", "chain", "diamond (chain + main importing the shared module itself, first or last)"], "paths": list(PATHS) if tier != "quick" else ["flat", "deep", "samebase", "mixed"]}
    from .c08 import WorkDirs

    with WorkDirs():
        for s in pmap(make_worker(tier), chunks(list(enumerate(cases)), 30)):
            r.stats.merge(s)
    r.bounds["import_graphs"] = run_graphs(r.stats, tier)
    r.rule = (
        "states = (base schema, assignment of its declarations to {main, m1, m2} closed under declare-before-use, topology star|chain, module path depth, position of each mod "
        "statement up to the point of first need) on a real scratch file tree, compared per category (multiset of to_dict items) with the single-file parse; plus, for every module of "
        "every split (quick: every 8th split), each injected error {syntax, truncated, undeclared type, missing file}: must be Err naming the module file; plus every acyclic import graph over 4 one-struct files with ordered import lists (repeats allowed) and at most one cross-file reference: each reachable struct exactly once, a reference accepted exactly when the referring file imports (transitively) the declaring one. all states non-trivial."
    )
    r.assumptions = ["order of declarations across files is not judged, only the multiset per category"]
    return r.finish()


def replay(doc):
    from .c08 import replay as r8

    return r8(doc)
