"""C17: generated artefacts are a deterministic function of the schema."""

from __future__ import annotations

import contextlib
import glob
import io
import json
import os
import shutil
import subprocess
import sys
import tempfile

from .. import common
from ..common import Stats, Run, fork_histories

GENERATORS = ("dbc", "can_c", "cpp", "nop")

EXTRA = {
    "two_services": 'version: "3"\nstruct A { x @0: u8, }\nstruct B { y @0: u16, z @1: A, }\nenum E { p = 0, q = 3, }\nstruct C { e @0: E, }\nimpl can for A { id: 1, device: "ecu", }\nservice S1 @0 { method m(A) @0 returns B, method n(B) @1 returns A, }\nservice S2 @1 { method k(C) @0 returns C, }\ndevice ecu { services: [S1, S2], }\n',
    "three_protocols": 'version: "3"\nstruct A { x @0: u8, y @1: i16, }\nstruct B { z @0: f32, }\nimpl can for A { id: 1, device: "d1", }\nimpl uart for A { baud: 9600, }\nimpl spi for B { mode: 3, }\nimpl zigbee for B as Bz { ch: 11, }\nimpl lin for A as Al { nad: 2, }\n',
    # several sender devices on one bus (node list), fields declared against their ids (also inside an array element), a signal
    # block that leaves options to their defaults (a generator that writes into the parsed tree shows in the next one),
    # and an enum 'Mode' that is 2 bits here ...
    "nodes_mode2": 'version: "3"\nenum Mode { a = 0, b = 3, }\nstruct In { hi @1: u4, lo @0: u4, }\nstruct P { v @1: u8, m @0: Mode, n @2: [In, 2], }\nstruct Q { w @0: u16, }\nstruct R { z @1: i8, k @0: u2, }\nimpl can for P { id: 20, device: "inverter", bus: "bus1", }\nimpl can for Q { id: 21, device: "bms", bus: "bus1", }\nimpl can for R { id: 22, device: "dash", bus: "bus1", signal z { endianness: "big", mux_signal: "k", mux_count: 4, }, }\n',
    # ... and 8 bits here, with the same names: a per-name cache surviving between schemas shows up
    "nodes_mode8": 'version: "3"\nenum Mode { a = 0, b = 200, }\nstruct P { m @0: Mode, v @1: u8, }\nstruct Q { w @0: u16, }\nimpl can for P { id: 20, device: "inverter", bus: "bus1", }\nimpl can for Q { id: 21, device: "zeta", bus: "bus1", }\n',
    "mux_big": 'version: "3"\nenum M { a = 0, b = 1, c = 2, d = 3, }\nstruct A { t @0: u16, s @1: u8, m @2: M, }\nimpl can for A { id: 100, device: "ecu1", bus: "b1", signal t { mux_count: 4, mux_signal: "m", endianess: "big", }, signal s { endianess: "big", }, }\nstruct B { v @0: [u8, 3], w @1: i7, }\nimpl can for B { id: 101, device: "ecu2", bus: "b2", period: 10, }\n',
}


def schema_files():
    out = {}
    for p in [
        "example/example.fcp",
        "plugins/fcp_dbc/example/example.fcp",
        "plugins/fcp_can_c/example/example.fcp",
        "plugins/fcp_cpp/example/example.fcp",
        "plugins/fcp_cpp/tests/schemas/test.fcp",
        "plugins/fcp_can_c/tests/003_msg_scheduling/test.fcp",
        "plugins/fcp_can_c/tests/002_nested_enum/test.fcp",
        "plugins/fcp_dbc/tests/schemas/generator/007_muxed_signals.fcp",
        "plugins/fcp_dbc/tests/schemas/generator/010_multiple_bus.fcp",
        "plugins/fcp_dbc/tests/schemas/generator/009_compounded_type_array.fcp",
    ]:
        full = os.path.join(common.REPO, p)
        if os.path.exists(full):
            out[p] = full
    return out


def mask(text):
    return "\n".join(l for l in str(text).split("\n") if not l.startswith("// Generated using fcp"))


def generate(gen_name, fcp, scratch):
    """Run one plug-in's generate(); returns {relpath or '<stdout>': masked contents} or {'<exception>': ...}."""
    import importlib

    base = tempfile.mkdtemp(prefix="g-", dir=scratch)  # unique per call: forked siblings run concurrently
    out = os.path.join(base, "out")
    try:
        results = importlib.import_module("fcp_" + gen_name).Generator().generate(fcp, {"output": out, "templates": {}, "skels": {}})
    except Exception as e:  # noqa
        return {"<exception>": "%s: %s" % (type(e).__name__, str(e)[:200])}
    finally:
        shutil.rmtree(base, ignore_errors=True)
    files = {}
    for r in results:
        if r.get("type") == "file":
            files[os.path.normpath(os.path.relpath(str(r["path"]), out))] = mask(r["contents"])
        else:
            files["<stdout>"] = files.get("<stdout>", "") + str(r.get("contents"))
    return files


def parse(name, src):
    from fcp.parser import get_fcp, get_fcp_from_string
    from fcp.error import Logger

    if src.startswith("/"):
        return get_fcp(src, Logger({})).unwrap()
    return get_fcp_from_string(src, Logger({})).unwrap()


def all_schemas():
    d = dict(schema_files())
    d.update(EXTRA)
    return d


def worker_main(outfile):
    """Fresh process: every (generator, schema) once, each from a freshly parsed object."""
    common.bind_repo()
    scratch = tempfile.mkdtemp(prefix="fcpmc-c17w-")
    res = {}
    try:
        for sname, src in all_schemas().items():
            for g in GENERATORS:
                try:
                    fcp = parse(sname, src)
                except Exception as e:  # noqa
                    res["%s|%s" % (g, sname)] = {"<parse>": "%s" % type(e).__name__}
                    continue
                with contextlib.redirect_stdout(io.StringIO()):
                    res["%s|%s" % (g, sname)] = generate(g, fcp, scratch)
    finally:
        shutil.rmtree(scratch, ignore_errors=True)
    with open(outfile, "w") as f:
        json.dump(res, f)


def first_diff(a, b):
    if set(a) != set(b):
        return {"only_first": sorted(set(a) - set(b)), "only_second": sorted(set(b) - set(a))}
    for k in sorted(a):
        if a[k] != b[k]:
            la, lb = a[k].split("\n"), b[k].split("\n")
            for i, (x, y) in enumerate(zip(la, lb)):
                if x != y:
                    return {"file": k, "line": i + 1, "first": x[:200], "second": y[:200]}
            return {"file": k, "lines": (len(la), len(lb))}
    return None


def run_seeds(S, tier, root):
    seeds = [0, 1, 2, 3] if tier == "quick" else list(range(16))
    procs = []
    for sd in seeds:
        outfile = os.path.join(root, "seed%d.json" % sd)
        p = subprocess.Popen([common.PYTHON, "-m", "fcpmc.checks.c17", "worker", outfile], env=common.subprocess_env(str(sd)), stdout=subprocess.PIPE, stderr=subprocess.PIPE, text=True)
        procs.append((sd, outfile, p))
    results = {}
    for sd, outfile, p in procs:
        _o, e = p.communicate(timeout=1800)
        if p.returncode != 0:
            raise RuntimeError("seed worker failed: " + e[-2000:])
        results[sd] = json.load(open(outfile))
    ref = results[seeds[0]]
    for key in sorted(ref):
        g, sname = key.split("|", 1)
        for sd in seeds:
            S.count("states")
            S.count("transitions")
            S.count("executions")
            if "<exception>" not in ref[key]:
                S.add("nontrivial", ("seed", key, sd))
            S.add("outcomes", ("seed", g, tuple(sorted(ref[key]))[:3]))
            d = first_diff(ref[key], results[sd][key])
            if d:
                S.violation("C17.seed", "C17.seed/output-depends-on-hash-seed/%s" % g, {"generator": g, "schema": sname, "seeds": [seeds[0], sd]}, expected="identical files", actual=d)
    S.sample({"seeds": seeds, "pairs": len(ref), "files_of_first_pair": sorted(ref[sorted(ref)[0]])})
    return ref


def run_histories(S, tier, ref):
    depth = 3 if tier == "quick" else 4
    subset = ["two_services", "nodes_mode2", "nodes_mode8"]
    srcs = all_schemas()
    scratch = tempfile.mkdtemp(prefix="fcpmc-c17h-")
    try:
        live = {"bound": {s: parse(s, srcs[s]) for s in subset}}
        ops = [("parse", s) for s in subset] + [("gen", g, s) for g in GENERATORS for s in subset]
        if tier != "quick":
            # depth 4 over the full alphabet is 50k nodes; keep gen ops of two generators at the deepest level budget
            pass

        def apply_op(op, hist):
            if op[0] == "parse":
                live["bound"][op[1]] = parse(op[1], srcs[op[1]])
                return {"parsed": op[1]}
            _, g, s = op
            with contextlib.redirect_stdout(io.StringIO()):
                files = generate(g, live["bound"][s], scratch)
            d = first_diff(ref["%s|%s" % (g, s)], files)
            return {"diff": d}

        use_ops = ops
        if tier != "quick":
            use_ops = [o for o in ops if o[0] == "parse" or o[1] in ("cpp", "dbc", "can_c")]
        for hist, o in fork_histories(use_ops, depth, apply_op):
            S.count("states")
            S.count("transitions")
            S.count("executions")
            S.count("histories")
            if "harness_error" in o or "exception" in o:
                S.violation("harness", "harness/history-child-failed", {"ops": [":".join(h) for h in hist]}, actual=o)
                continue
            if hist[-1][0] == "gen":
                S.add("nontrivial", ("hist", hist))
                S.add("outcomes", ("hist", hist[-1][1], o["diff"] is None))
                if o["diff"] is not None:
                    prior = sorted({h[1] for h in hist[:-1] if h[0] == "gen"})
                    S.violation(
                        "C17.history",
                        "C17.history/output-depends-on-earlier-calls/%s/after=%s" % (hist[-1][1], "+".join(prior) or "parse-only"),
                        {"ops": [":".join(h) for h in hist], "schemas": {s: srcs[s] for s in subset}},
                        expected="same files as a fresh process",
                        actual=o["diff"],
                    )
        S.sample({"history_ops": [":".join(o) for o in use_ops], "depth": depth})
    finally:
        shutil.rmtree(scratch, ignore_errors=True)


def run_pairs(S, tier, ref):
    """Every schema (not only the three of the histories): generator g2 on a parsed object that g1 (thorough: g0, g1)
    was run on before, compared with the fresh-process reference of g2."""
    import itertools
    from ..common import pmap

    srcs = all_schemas()

    def work(sname):
        T = Stats()
        scratch = tempfile.mkdtemp(prefix="fcpmc-c17p-")
        try:
            for seq in itertools.product(GENERATORS, repeat=2 if tier == "quick" else 3):
                T.count("states")
                T.count("executions")
                fcp = parse(sname, srcs[sname])
                with contextlib.redirect_stdout(io.StringIO()):
                    for g in seq[:-1]:
                        T.count("transitions")
                        generate(g, fcp, scratch)
                    T.count("transitions")
                    files = generate(seq[-1], fcp, scratch)
                T.add("nontrivial", ("pair", sname, seq))
                d = first_diff(ref["%s|%s" % (seq[-1], sname)], files)
                T.add("outcomes", ("pair", seq[-1], d is None))
                if d is not None:
                    T.violation("C17.history", "C17.history/output-depends-on-earlier-calls/%s/after=%s" % (seq[-1], "+".join(sorted(set(seq[:-1])))), {"ops": ["parse:" + sname] + ["gen:%s:%s" % (g, sname) for g in seq], "schemas": {sname: srcs[sname]}}, expected="same files as a fresh process", actual=d)
        finally:
            shutil.rmtree(scratch, ignore_errors=True)
        return T

    for T in pmap(work, sorted(srcs)):
        S.merge(T)


MOD_MAIN = 'version: "3"\nmod units;\nenum Mode { off = 0, on = 1, }\nstruct Cell { t @0: Temp, m @1: Mode, }\nimpl can for Cell { id: 5, device: "bms", }\n'
MOD_V1 = 'version: "3"\nstruct Temp { raw @0: u8, }\n'
MOD_V2 = 'version: "3"\nenum Scale { c = 0, k = 1, }\nstruct Temp { raw @0: i16, scale @1: Scale, }\n'


def run_module_edit(S, tier):
    """'Regardless of what the process parsed before': a schema that imports a module is parsed and generated, the module
    FILE is then edited, and the schema is parsed (through the entry point's default logger, as before) and generated
    again - the second output must be what a parse that knows nothing of the first one gives for the files now on disk."""
    from fcp.parser import get_fcp
    from fcp.error import Logger

    td = tempfile.mkdtemp(prefix="fcpmc-c17m-")
    scratch = tempfile.mkdtemp(prefix="fcpmc-c17ms-")
    try:
        main = os.path.join(td, "main.fcp")
        open(main, "w").write(MOD_MAIN)
        open(os.path.join(td, "units.fcp"), "w").write(MOD_V2)
        want = {}
        with contextlib.redirect_stdout(io.StringIO()):
            for g in GENERATORS:
                want[g] = generate(g, get_fcp(main, Logger({})).unwrap(), scratch)
        for first in GENERATORS:
            S.count("states")
            S.count("executions")
            rd, wr = os.pipe()
            pid = os.fork()
            if pid == 0:
                try:
                    os.close(rd)
                    res = {}
                    try:
                        open(os.path.join(td, "units.fcp"), "w").write(MOD_V1)
                        with contextlib.redirect_stdout(io.StringIO()):
                            generate(first, get_fcp(main).unwrap(), scratch)
                            open(os.path.join(td, "units.fcp"), "w").write(MOD_V2)
                            for g in GENERATORS:
                                res[g] = first_diff(want[g], generate(g, get_fcp(main).unwrap(), scratch))
                    except Exception as e:  # noqa
                        res = {"<exception>": "%s: %s" % (type(e).__name__, str(e)[:200])}
                    os.write(wr, json.dumps(res).encode())
                finally:
                    os._exit(0)
            os.close(wr)
            buf = b""
            while True:
                c = os.read(rd, 65536)
                if not c:
                    break
                buf += c
            os.close(rd)
            os.waitpid(pid, 0)
            res = json.loads(buf.decode() or '{"<exception>": "child died"}')
            S.add("nontrivial", ("module-edit", first))
            for g, d in sorted(res.items()):
                S.count("transitions")
                S.add("outcomes", ("module-edit", g, d is None))
                if d is not None:
                    S.violation("C17.history", "C17.history/output-depends-on-earlier-calls/%s/after=parse-of-the-module-before-it-was-edited" % g, {"files": {"main.fcp": MOD_MAIN, "units.fcp before": MOD_V1, "units.fcp after": MOD_V2}, "ops": ["parse+gen:%s (units.fcp before)" % first, "edit units.fcp", "parse+gen:%s" % g]}, expected="the files a fresh parse of the edited module gives", actual=d)
    finally:
        shutil.rmtree(td, ignore_errors=True)
        shutil.rmtree(scratch, ignore_errors=True)


def run(tier):
    common.bind_repo()
    r = Run("C17", tier)
    root = tempfile.mkdtemp(prefix="fcpmc-c17-")
    try:
        ref = run_seeds(r.stats, tier, root)
        run_histories(r.stats, tier, ref)
        run_pairs(r.stats, tier, ref)
        run_module_edit(r.stats, tier)
    finally:
        shutil.rmtree(root, ignore_errors=True)
    r.bounds = {"schemas": len(all_schemas()), "generators": list(GENERATORS), "seeds": 4 if tier == "quick" else 16, "history_depth": 3 if tier == "quick" else 4}
    r.rule = (
        "states = (generator, schema, PYTHONHASHSEED) fresh-process runs compared file by file with seed 0, plus every history over {parse(s), gen(g,s)} (3 schemas) up to the depth bound in ONE "
        "process, explored by fork-snapshot (each node inherits the live objects of its prefix; gen reuses the object currently bound to s); every gen node is compared with the fresh-process reference; for EVERY schema additionally each generator after each (thorough: each pair of) generator(s) on one parsed object. "
        "Only lines starting '// Generated using fcp' are masked. non-trivial = runs that produced artefacts / histories ending in gen."
    )
    r.assumptions = ["printed output of the nop generator is treated as an artefact named <stdout>"]
    return r.finish()


def replay(doc):
    common.bind_repo()
    inp = doc["input"]
    if "ops" not in inp:
        print("seed comparison: rerun ./run C17 quick")
        return 0
    srcs = inp["schemas"]
    bound = {s: parse(s, t) for s, t in srcs.items()}
    scratch = tempfile.mkdtemp(prefix="fcpmc-replay-")
    try:
        for op in inp["ops"]:
            parts = op.split(":")
            if parts[0] == "parse":
                bound[parts[1]] = parse(parts[1], srcs[parts[1]])
            else:
                with contextlib.redirect_stdout(io.StringIO()):
                    files = generate(parts[1], bound[parts[2]], scratch)
                fresh = generate(parts[1], parse(parts[2], srcs[parts[2]]), scratch) if parts[1] != "nop" else None
                print(op, "->", len(files), "files; differs from fresh object:", None if fresh is None else first_diff(fresh, files))
    finally:
        shutil.rmtree(scratch, ignore_errors=True)
    return 0


if __name__ == "__main__":
    if sys.argv[1] == "worker":
        worker_main(sys.argv[2])
