"""C06: generated C CAN code packs and unpacks frames per the packed layout."""

from __future__ import annotations

import itertools
import os
import shutil
import struct
import tempfile

from .. import common, refcodec, reflayout, shapes, cbuild
from ..schema import U, I, F32, F64, Hoister, print_schema, struct_decl, type_str
from ..common import Stats, Run, pmap, chunks
from .codec import class_skeleton


def en(bits, tag):
    m = (1 << bits) - 1
    return ("en", (("z%s" % tag, 0), ("m%s" % tag, m)))


def alphabet(tier):
    ws = (1, 5, 8, 12, 16, 24, 32, 33, 64)
    a = [U(w) for w in ws] + [I(w) for w in ws] + [F32, F64, en(2, "a"), en(3, "b")]
    return a


def total_width(combo):
    return sum(shapes.fixed_width(t) for t in combo)


DIRECTED = [
    tuple(U(8) for _ in range(8)),
    tuple(U(w) for w in range(1, 9)),
    tuple(U(w) for w in range(8, 0, -1)),
    tuple(U(16) for _ in range(4)),
    (F32, I(16), U(16)),
    (U(3), F32, I(5), U(24)),
    tuple(I(8) for _ in range(8)),
    (I(7), I(9), I(13), I(3), U(1), I(31)),
    (en(3, "c"), U(5), en(2, "d"), I(6), F32, U(16)),
    # widths next to the carrier sizes
    (I(63), U(1)),
    (U(1), I(63)),
    (I(31), U(33)),
    (I(17), U(47)),
    (U(63),),
    (I(9), I(7), I(15)),
    # enum whose NAME starts like a signed type
    (("en", (("zi", 0), ("mi", 5)), "imode"), U(5)),
    (U(3), ("en", (("zj", 0), ("mj", 3)), "i8mode"), ("en", (("zk", 0), ("mk", 7)), "unit_state")),
]


def build_space(tier):
    A = alphabet(tier)
    combos = []
    transitions = 0
    maxn = 3 if tier == "quick" else 4
    for n in range(1, maxn + 1):
        alpha = A if n <= 2 else ([U(1), U(5), U(8), U(12), I(5), I(16), I(33), F32, en(3, "b")] if n == 3 and tier == "quick" else (A if n == 3 else [U(1), U(5), U(12), I(5), I(16), F32, en(3, "b")]))
        for c in itertools.product(alpha, repeat=n):
            transitions += 1
            if total_width(c) <= 64:
                combos.append(c)
    for c in DIRECTED:
        transitions += 1
        combos.append(c)
    if tier != "quick":
        # every width 1..64, signed and unsigned, alone and behind a one-bit signal
        for w in range(1, 65):
            for t in (U(w), I(w)):
                for c in ((t,), (U(1), t)):
                    transitions += 1
                    if total_width(c) <= 64 and c not in combos:
                        combos.append(c)
    return combos, transitions


def msg_values(st):
    return shapes.struct_values(st, special_floats=False, limit=64)


def shape_class(combo):
    return ",".join(class_skeleton(t) + (str(t[1]) if t[0] in ("u", "i") and t[1] not in (8, 16, 32, 64) else "") for t in combo)


def coarse_class(combo):
    """Stable class of a message shape for findings: which features it has."""
    feats = []
    if any(t[0] in ("u",) and t[1] not in (8, 16, 32, 64) for t in combo):
        feats.append("odd-unsigned")
    if any(t[0] == "i" and t[1] not in (8, 16, 32, 64) for t in combo):
        feats.append("odd-signed")
    off = 0
    for t in combo:
        if t[0] in ("f32", "f64") and off:
            feats.append("float-at-offset")
        off += shapes.fixed_width(t)
    if any(t[0] == "i" and t[1] > 32 for t in combo):
        feats.append("wide-signed")
    return "+".join(sorted(set(feats))) or "plain"


def make_worker(tier):
    from fcp.parser import get_fcp_from_string
    from fcp.error import Logger

    def work(chunk):
        S = Stats()
        run_batch(S, chunk)
        return S

    def run_batch(S, chunk):
        h = Hoister()
        decls = []
        meta = []
        for idx, combo in chunk:
            name = "M%d" % idx
            st = ("st", tuple(("g%d" % i, i, t) for i, t in enumerate(combo)))
            decls.append(struct_decl(name, st, h))
            decls.append(("impl", "can", name, None, (("id", idx % 2048), ("device", "d%d" % idx)), ()))
            meta.append((idx, combo, name, st))
        decls = h.decls + decls
        text = print_schema(decls)
        env = refcodec.Env(decls)
        fcp = get_fcp_from_string(text, Logger({})).unwrap()
        work = tempfile.mkdtemp(prefix="fcpmc-c06-")
        try:
            try:
                files = cbuild.generate_c(fcp, work)
            except Exception as e:  # noqa
                if len(chunk) > 1:
                    for it in chunk:
                        run_batch(S, [it])
                    return
                idx, combo, name, st = meta[0]
                S.count("states")
                S.count("executions")
                S.add("outcomes", "gen-exc")
                S.violation("C06.generate", "C06.generate/exception:%s/%s" % (type(e).__name__, coarse_class(combo)), {"text": text, "shape": shape_class(combo)}, expected="C sources", actual="%s: %s" % (type(e).__name__, str(e)[:200]))
                return
            for idx, combo, name, st in meta:
                S.count("states")
                if len(combo) >= 2:
                    S.add("nontrivial", combo)
                hname = "d%d_can.h" % idx
                cname = "d%d_can.c" % idx
                inp = {"text": text, "message": name, "shape": shape_class(combo), "device": "d%d" % idx}
                if hname not in files or cname not in files:
                    S.violation("C06.generate", "C06.generate/device-files-missing", inp, expected=[hname, cname], actual=sorted(files))
                    continue
                info = cbuild.parse_header(files[hname])
                typ = "CanMsg" + name
                if typ not in info["messages"] or not info["messages"][typ]["encode"] or not info["messages"][typ]["decode"]:
                    S.violation("C06.generate", "C06.generate/message-api-missing", inp, expected=typ, actual=sorted(info["messages"]))
                    continue
                vals = msg_values(st)
                rows = []
                for v in vals:
                    rows.append({f[0]: v[f[0]] for f in st[1]})
                main_c = cbuild.make_codec_main(hname, info, {typ: rows})
                sub = tempfile.mkdtemp(prefix="b-", dir=work)
                for fn in files:
                    if fn.endswith(".h") or fn in (cname, "can_signal_parser.c"):
                        shutil.copy(os.path.join(work, fn), os.path.join(sub, fn))
                res = cbuild.compile_and_run(sub, [cname, "can_signal_parser.c"], main_c)
                S.count("executions")
                if tier != "quick" and "stdout" in res and idx % 4 == 0:
                    # second opinion: clang -O2 must print exactly what gcc -O0 printed
                    res2 = cbuild.compile_and_run(sub, [cname, "can_signal_parser.c"], main_c, cc="clang", extra_flags=("-O2",))
                    S.count("executions")
                    S.count("clang_builds")
                    if res2.get("stdout") != res.get("stdout"):
                        S.violation("C06.compilers", "C06.compilers/clang-O2-differs-from-gcc-O0/%s" % coarse_class(combo), inp, expected=res.get("stdout", "")[:400], actual=str(res2)[:600])
                if "compile_error" in res:
                    S.add("outcomes", "cc-error")
                    S.violation("C06.compile", "C06.compile/cc-error/%s/%s" % (cbuild.first_error(res["compile_error"]), coarse_class(combo)), inp, expected="compiles", actual=res["compile_error"][-600:])
                    continue
                if res["rc"] != 0:
                    S.violation("C06.run", "C06.run/crash/%s" % coarse_class(combo), inp, expected="rc 0", actual=res)
                    continue
                lines = res["stdout"].strip().split("\n")
                enc = {}
                dec = {}
                for ln in lines:
                    p = ln.split()
                    if p[0] == "E":
                        enc[int(p[2])] = (int(p[3]), int(p[4]), bytes(int(x, 16) for x in p[5:13]))
                    elif p[0] == "D":
                        dec[int(p[2])] = {kv.split("=")[0]: cbuild.parse_printed(kv.split("=", 1)[1]) for kv in p[3:]}
                bits = reflayout.total_bits(env, name)
                exp_dlc = (bits + 7) // 8
                for k, v in enumerate(vals):
                    S.count("executions")
                    ref = refcodec.encode(env, name, v)
                    exp = (idx % 2048, exp_dlc, ref + bytes(8 - len(ref)))
                    vin = dict(inp)
                    vin["value"] = v
                    if enc.get(k) != exp:
                        what = "id" if enc.get(k, (None,))[0] != exp[0] else ("dlc" if enc[k][1] != exp[1] else "data")
                        S.add("outcomes", "enc-differs")
                        S.violation("C06.encode", "C06.encode/%s-differs/%s" % (what, coarse_class(combo)), vin, expected={"id": exp[0], "dlc": exp[1], "data": exp[2]}, actual=None if k not in enc else {"id": enc[k][0], "dlc": enc[k][1], "data": enc[k][2]})
                        continue
                    got = dec.get(k)
                    want = {f[0]: v[f[0]] for f in st[1]}
                    same = got is not None and set(got) == set(want) and all(_num_same(got[n], want[n]) for n in want)
                    if same:
                        S.add("outcomes", "ok:%d" % exp_dlc)
                    else:
                        S.add("outcomes", "dec-differs")
                        S.violation("C06.decode", "C06.decode/value-differs/%s" % coarse_class(combo), vin, expected=want, actual=got)
                if len(S.samples) < 2:
                    S.sample({"shape": shape_class(combo), "values": len(vals), "example": {"value": vals[-1], "frame": enc.get(len(vals) - 1) and enc[len(vals) - 1][2].hex()}})
        finally:
            shutil.rmtree(work, ignore_errors=True)

    return work


def _num_same(a, b):
    if isinstance(b, float):
        return isinstance(a, float) and refcodec.same(a, b)  # bit for bit: -0.0 is not +0.0
    return a == b


NAMING = {
    # label: (schema text, [(device, message struct, {member: value}, expected data bytes hex)])
    "device-camel": ('version: "3"\nstruct M { a @0: u8, b @1: i8, }\nimpl can for M { id: 1, device: "frontEcu", }\n', [("frontEcu", "M", {"a": 200, "b": -2}, "c8fe")]),
    "device-upper": ('version: "3"\nstruct M { a @0: u8, }\nimpl can for M { id: 2, device: "ECU", }\n', [("ECU", "M", {"a": 7}, "07")]),
    "device-snake-digits": ('version: "3"\nstruct M { a @0: u8, }\nimpl can for M { id: 3, device: "front_ecu2", }\n', [("front_ecu2", "M", {"a": 7}, "07")]),
    "device-pascal": ('version: "3"\nstruct M { a @0: u8, }\nimpl can for M { id: 4, device: "MotorController", }\n', [("MotorController", "M", {"a": 7}, "07")]),
    "two-devices": ('version: "3"\nstruct M { a @0: u8, }\nstruct N { c @0: u16, }\nimpl can for M { id: 5, device: "ecu", }\nimpl can for N { id: 6, device: "bms", }\n', [("ecu", "M", {"a": 7}, "07"), ("bms", "N", {"c": 258}, "0201")]),
    "two-devices-interleaved": ('version: "3"\nstruct M { a @0: u8, }\nstruct N { c @0: u16, }\nstruct P { d @0: i8, }\nstruct Q { e @0: u8, }\nimpl can for M { id: 5, device: "ecu", }\nimpl can for N { id: 6, device: "bms", }\nimpl can for P { id: 7, device: "ecu", }\nimpl can for Q { id: 8, device: "bms", }\n', [("ecu", "M", {"a": 7}, "07"), ("bms", "N", {"c": 258}, "0201"), ("ecu", "P", {"d": -2}, "fe"), ("bms", "Q", {"e": 9}, "09")]),
    "messages-differ-in-acronym-case": ('version: "3"\nstruct BMSStatus { a @0: u8, }\nstruct BmsStatus { b @0: u16, }\nstruct CellID { c @0: u8, }\nstruct CellId { d @0: i8, }\nimpl can for BMSStatus { id: 40, device: "ecu", }\nimpl can for BmsStatus { id: 41, device: "ecu", }\nimpl can for CellID { id: 42, device: "ecu", }\nimpl can for CellId { id: 43, device: "ecu", }\n', [("ecu", "BMSStatus", {"a": 7}, "07"), ("ecu", "BmsStatus", {"b": 258}, "0201"), ("ecu", "CellID", {"c": 9}, "09"), ("ecu", "CellId", {"d": -2}, "fe")]),
    "message-names": ('version: "3"\nstruct ABCMsg { a @0: u8, }\nstruct my_msg { b @0: u8, }\nstruct Msg2B { c @0: u8, }\nimpl can for ABCMsg { id: 7, device: "ecu", }\nimpl can for my_msg { id: 8, device: "ecu", }\nimpl can for Msg2B { id: 9, device: "ecu", }\n', [("ecu", "ABCMsg", {"a": 1}, "01"), ("ecu", "my_msg", {"b": 2}, "02"), ("ecu", "Msg2B", {"c": 3}, "03")]),
    "renamed-binding": ('version: "3"\nstruct M { a @0: u8, }\nimpl can for M as Status { id: 10, device: "ecu", }\n', [("ecu", "Status", {"a": 9}, "09")]),
    "enums-sharing-an-enumerator": ('version: "3"\nenum A { Off = 0, On = 1, }\nenum B { Off = 0, Fast = 2, }\nstruct M { a @0: A, b @1: B, }\nimpl can for M { id: 11, device: "ecu", }\n', [("ecu", "M", {"a": 1, "b": 2}, "05")]),
    "signal-macro-names-collide": ('version: "3"\nstruct Foo { pad @0: u8, bar_x @1: u8, }\nstruct FooBar { x @0: u16, }\nimpl can for Foo { id: 12, device: "ecu", }\nimpl can for FooBar { id: 13, device: "ecu", }\n', [("ecu", "Foo", {"pad": 1, "bar_x": 200}, "01c8"), ("ecu", "FooBar", {"x": 513}, "0102")]),
    "signal-macro-names-collide-with-double-underscore": ('version: "3"\nstruct Inv { l__temp @0: u8, }\nstruct Inv_L { speed @0: u8, temp @1: u8, }\nimpl can for Inv { id: 30, device: "ecu", }\nimpl can for Inv_L { id: 31, device: "ecu", }\n', [("ecu", "Inv", {"l__temp": 90}, "5a"), ("ecu", "Inv_L", {"speed": 1, "temp": 2}, "0102")]),
    "message-keyword-in-snake-case": ('version: "3"\nstruct Switch { pressed @0: u1, count @1: u7, }\nimpl can for Switch { id: 17, device: "dash", }\n', [("dash", "Switch", {"pressed": 1, "count": 100}, "c9")]),
    "messages-equal-in-snake-case": ('version: "3"\nstruct MotorTemp { celsius @0: i12, }\nstruct motor_temp { raw @0: u16, }\nimpl can for MotorTemp { id: 100, device: "inv", }\nimpl can for motor_temp { id: 101, device: "inv", }\n', [("inv", "MotorTemp", {"celsius": -5}, "fb0f"), ("inv", "motor_temp", {"raw": 258}, "0201")]),
    "devices-equal-in-snake-case": ('version: "3"\nstruct M { a @0: u8, }\nstruct N { c @0: u16, }\nimpl can for M { id: 5, device: "Ecu", }\nimpl can for N { id: 6, device: "ecu", }\n', [("Ecu", "M", {"a": 7}, "07"), ("ecu", "N", {"c": 258}, "0201")]),
    "enumerators-equal-in-upper-case": ('version: "3"\nenum Unit { mV = 0, MV = 1, }\nstruct M { u @0: Unit, raw @1: u8, }\nimpl can for M { id: 12, device: "ecu", }\n', [("ecu", "M", {"u": 1, "raw": 171}, "5701")]),
    # enum and field names that start like the spelling of a built-in type (i..., u..., f32x): the field stays an unsigned enum
    "enumerator-equals-an-enum-name-in-upper-case": ('version: "3"\nenum State { Ok = 0, Error = 1, }\nenum ERROR { None = 0, Overheat = 5, }\nstruct M { state @0: State, code @1: ERROR, temp @2: i12, }\nimpl can for M { id: 32, device: "ecu", }\n', [("ecu", "M", {"state": 1, "code": 5, "temp": -3}, "dbff")]),
    "enum-named-like-a-signed-type": ('version: "3"\nenum inverterState { Off = 0, Run = 2, Fault = 3, }\nenum u8state { A = 0, B = 1, }\nstruct M { st @0: inverterState, i16x @1: u8state, u @2: u5, }\nimpl can for M { id: 13, device: "ecu", }\n', [("ecu", "M", {"st": 3, "i16x": 1, "u": 9}, "4f")]),
    "message-leading-underscore": ('version: "3"\nstruct _2ndStatus { a @0: u8, b @1: i12, }\nstruct _ { c @0: u8, }\nimpl can for _2ndStatus { id: 10, device: "ecu", }\nimpl can for _ { id: 11, device: "ecu", }\n', [("ecu", "_2ndStatus", {"a": 7, "b": -3}, "07fd0f"), ("ecu", "_", {"c": 9}, "09")]),
    "message-underscore-vs-plain": ('version: "3"\nstruct Foo { a @0: u8, }\nstruct _Foo { b @0: u16, }\nimpl can for Foo { id: 20, device: "ecu", }\nimpl can for _Foo { id: 21, device: "ecu", }\n', [("ecu", "Foo", {"a": 7}, "07"), ("ecu", "_Foo", {"b": 258}, "0201")]),
    # frame ids at and beyond the 11 bits of CanFrame.id: refused, or carried exactly
    "id-2047": ('version: "3"\nstruct M { a @0: u8, }\nimpl can for M { id: 2047, device: "ecu", }\n', [("ecu", "M", {"a": 7}, "07")], {"id": 2047}),
    "id-2048": ('version: "3"\nstruct M { a @0: u8, }\nimpl can for M { id: 2048, device: "ecu", }\n', [("ecu", "M", {"a": 7}, "07")], {"id": 2048, "may_refuse": True}),
    "id-extended": ('version: "3"\nstruct M { a @0: u8, }\nstruct N { b @0: u8, }\nimpl can for N { id: 229, device: "ecu", }\nimpl can for M { id: 419385573, device: "ecu", }\n', [("ecu", "M", {"a": 7}, "07")], {"id": 419385573, "may_refuse": True}),
    "id-negative": ('version: "3"\nstruct M { a @0: u8, }\nimpl can for M { id: -1, device: "ecu", }\n', [("ecu", "M", {"a": 7}, "07")], {"id": -1, "may_refuse": True}),
    "nested-and-array-names": ('version: "3"\nstruct In { v @0: u4, w @1: u4, }\nstruct M { in_ @0: In, arr @1: [u8, 2], }\nimpl can for M { id: 14, device: "ecu", }\n', [("ecu", "M", {"in__v": 1, "in__w": 2, "arr_0": 3, "arr_1": 4}, "210304")]),
}


def run_naming(S, tier):
    """Names are input too: device, message, binding, enum and signal names of every casing style must
    end up in C that compiles, links per device and still packs the right bytes."""
    from fcp.parser import get_fcp_from_string
    from fcp.error import Logger

    for label, entry in NAMING.items():
        text, msgs = entry[0], entry[1]
        opts = entry[2] if len(entry) > 2 else {}
        S.count("states")
        S.count("transitions")
        S.add("nontrivial", ("naming", label))
        inp = {"text": text, "family": "naming", "case": label}
        fcp = get_fcp_from_string(text, Logger({})).unwrap()
        work = tempfile.mkdtemp(prefix="fcpmc-c06n-")
        try:
            S.count("executions")
            try:
                files = cbuild.generate_c(fcp, work)
            except Exception as e:  # noqa
                if opts.get("may_refuse"):
                    S.add("outcomes", ("naming-refused", label))
                    continue
                S.violation("C06.generate", "C06.generate/exception:%s/naming:%s" % (type(e).__name__, label), inp, expected="C sources", actual=str(e)[:200])
                continue
            devices = sorted({d for d, _m, _v, _x in msgs})
            for dev in devices:
                csrc = [f for f in files if f.endswith("_can.c")]
                hdrs = [f for f in files if f.endswith("_can.h") and f != "global_can.h"]
                # the device's source and header: found by content, not by recomputing the naming rule
                mine = [m for d, m, _v, _x in msgs if d == dev]
                hname = next((h for h in hdrs if all(("CanMsg%s;" % m) in files[h] or ("} CanMsg%s;" % m) in files[h] for m in mine)), None)
                cname = next((c for c in csrc if all(("CanMsg%s " % m) in files[c] for m in mine)), None)
                if hname is None or cname is None:
                    S.violation("C06.generate", "C06.generate/device-files-missing/naming:%s" % label, dict(inp, device=dev), expected="a header and a source for the device", actual=sorted(files))
                    continue
                info = cbuild.parse_header(files[hname])
                table = {}
                exp = {}
                for d, m, v, x in msgs:
                    if d != dev:
                        continue
                    table["CanMsg" + m] = [v]
                    exp["CanMsg" + m] = (v, bytes.fromhex(x))
                missing = [t for t in table if t not in info["messages"] or not info["messages"][t]["encode"]]
                if missing:
                    S.violation("C06.generate", "C06.generate/message-api-missing/naming:%s" % label, dict(inp, device=dev), expected=sorted(table), actual=sorted(info["messages"]))
                    continue
                main_c = cbuild.make_codec_main(hname, info, table)
                sub = tempfile.mkdtemp(prefix="b-", dir=work)
                for fn in files:
                    if fn.endswith(".h") or fn in (cname, "can_signal_parser.c"):
                        shutil.copy(os.path.join(work, fn), os.path.join(sub, fn))
                res = cbuild.compile_and_run(sub, [cname, "can_signal_parser.c"], main_c, extra_flags=("-Werror=implicit-function-declaration",))
                S.count("executions")
                if "compile_error" in res:
                    S.add("outcomes", "naming-cc-error")
                    S.violation("C06.compile", "C06.compile/cc-error/naming:%s" % label, dict(inp, device=dev), expected="compiles", actual=res["compile_error"][-700:])
                    continue
                enc, dec = {}, {}
                for ln in res["stdout"].strip().split("\n"):
                    p = ln.split()
                    if p and p[0] == "E":
                        enc[p[1]] = (int(p[3]), int(p[4]), bytes(int(z, 16) for z in p[5:13]))
                    elif p and p[0] == "D":
                        dec[p[1]] = {kv.split("=")[0]: cbuild.parse_printed(kv.split("=", 1)[1]) for kv in p[3:]}
                for typ, (v, data) in exp.items():
                    S.count("executions")
                    got = enc.get(typ)
                    if got is not None and "id" in opts and got[0] != opts["id"]:
                        S.add("outcomes", "naming-id-differs")
                        S.violation("C06.encode", "C06.encode/frame-id-differs/naming:%s" % label, dict(inp, device=dev, message=typ), expected={"id": opts["id"]}, actual={"id": got[0]})
                        continue
                    if got is None or got[1] != len(data) or got[2][: len(data)] != data or dec.get(typ) != v:
                        S.add("outcomes", "naming-differs")
                        S.violation("C06.encode", "C06.encode/data-or-value-differs/naming:%s" % label, dict(inp, device=dev, message=typ, value=v), expected={"dlc": len(data), "data": data, "decoded": v}, actual={"frame": got, "decoded": dec.get(typ)})
                    else:
                        S.add("outcomes", ("naming-ok", label))
        finally:
            shutil.rmtree(work, ignore_errors=True)


def run(tier):
    common.bind_repo()
    r = Run("C06", tier)
    combos, transitions = build_space(tier)
    r.bounds = {"message_shapes": len(combos), "max_signals_exhaustive": 3 if tier == "quick" else 4, "directed": len(DIRECTED)}
    for s in pmap(make_worker(tier), chunks(list(enumerate(combos)), 12)):
        r.stats.merge(s)
    r.stats.c["transitions"] += transitions
    run_naming(r.stats, tier)
    r.rule = (
        "states = flat CAN messages: every sequence of 1..3 signals (thorough 4 over a reduced alphabet) over {u/i 1,5,8,12,16,24,32,33,64, f32, f64, enum 2 bits, enum 3 bits} with total <= 64 bits, plus "
        "directed 5..8-signal messages; each is generated by the real fcp_can_c generator, compiled with gcc together with a generated main(), and run for every boundary value (product <= 64 else star): "
        "frame id/dlc/data must equal the reference packing and decode(encode(v)) == v. non-trivial = >= 2 signals."
    )
    r.assumptions = ["gcc 12 decides 'compiles'", "NaN and infinities excluded (no portable C literal); -0.0 included and compared bit for bit", "names read back from the generated header"]
    return r.finish()


def replay(doc):
    common.bind_repo()
    print(doc["input"]["text"][:1500])
    print("shape:", doc["input"].get("shape"), "value:", doc["input"].get("value"))
    print("expected:", doc["expected"])
    print("actual:", doc["actual"])
    print("(re-run: ./run C06 quick regenerates and recompiles this shape)")
    return 0
