"""C11: the parser is total: every input yields a schema or a renderable error."""

from __future__ import annotations

import glob
import itertools
import json
import os
import re
import shutil
import signal
import tempfile
from pathlib import Path

from .. import common, descs
from ..schema import print_schema
from ..common import Stats, Run, pmap, chunks

TOKEN_RE = re.compile(r'"(?:[^"\\]|\\.)*"|/\*.*?\*/|//[^\n]*|[A-Za-z_][A-Za-z0-9_]*|-?\d+(?:\.\d+)?(?:[eE][+-]?\d+)?|\s+|.', re.S)

MUT_TOKENS = ["struct", "enum", "impl", "for", "as", "signal", "service", "method", "returns", "device", "mod", "version", "Optional", "{", "}", "[", "]", "(", ")", ",", ":", ";", "@", "|", "=", ".", "ident", "7", "-1.5", '"s"', "u8", "str", "\r", "\0", "/*", "é", '"']
SEQ_TOKENS = ["struct", "A", "{", "}", "x", "@", "0", ":", "u8", ",", "[", "]"]
SEQ_TOKENS2 = ["impl", "can", "for", "A", "{", "}", "id", ":", "1", ",", "signal", "as"]


def tokenize(text):
    return [t for t in TOKEN_RE.findall(text)]


def corpus(tier):
    texts = []
    for p in sorted(glob.glob(common.REPO + "/**/*.fcp", recursive=True)):
        try:
            texts.append(("file:" + os.path.relpath(p, common.REPO), open(p).read()))
        except Exception:  # noqa
            pass
    # line-break look-alikes: only "\n" counts as a line break for the grammar and for the diagnostics; CR alone,
    # form feed, NEL, U+2028/2029 are ordinary (ignored or comment/string) characters and must not shift cited lines
    base = 'version: "3"\n/* banner */\nenum E { a = 0, b = 1, }\n// note\nstruct S {\n    x @0: u8 | unit("m"),\n    e @1: E,\n}\nimpl can for S { id: 1, }\n'
    texts.append(("file:synthetic/cr-only", base.replace("\n", "\r")))
    texts.append(("file:synthetic/crlf", base.replace("\n", "\r\n")))
    texts.append(("file:synthetic/separators", base.replace("banner", "ban\x0cner\x0b \x85 \u2028 x \u2029").replace('"m"', '"m\u2028\x0c"').replace("// note", "// no\x0cte \u2028")))
    ds, _ = descs.descriptions("quick")
    for i, (label, decls) in enumerate(ds):
        texts.append(("desc:%s:%d" % (label, i), print_schema(decls)))
    return texts


def gen_inputs(tier):
    """Returns dict family -> list of (label, text). Deduplicated by text inside a family."""
    C = corpus(tier)
    fam = {"prefix": [], "mutation": [], "sequence": [], "literal": []}
    seen = set()
    # (a) every prefix (character boundary) of every corpus text
    step_corpus = C if tier != "quick" else [c for i, c in enumerate(C) if c[0].startswith("file:") or i % 3 == 0]
    for label, text in step_corpus:
        for k in range(len(text) + 1):
            p = text[:k]
            if p not in seen:
                seen.add(p)
                fam["prefix"].append(("%s[:%d]" % (label, k), p))
    # (b) single-token mutations
    mut_corpus = [c for c in C if c[0].startswith("file:example") or c[0].startswith("file:tests/schemas/syntax") or c[0].startswith("desc:full")]
    if tier != "quick":
        mut_corpus += [c for i, c in enumerate(C) if c[0].startswith("desc:") and i % 5 == 0]
    seenm = set()
    for label, text in mut_corpus:
        toks = tokenize(text)
        idx = [i for i, t in enumerate(toks) if not t.isspace()]
        for i in idx:
            variants = [("del", toks[:i] + toks[i + 1 :]), ("dup", toks[: i + 1] + [" "] + toks[i:])]
            j = next((k for k in idx if k > i), None)
            if j is not None:
                sw = list(toks)
                sw[i], sw[j] = sw[j], sw[i]
                variants.append(("swap", sw))
            for r in MUT_TOKENS:
                variants.append(("repl:" + repr(r), toks[:i] + [r] + toks[i + 1 :]))
            for op, tk in variants:
                t2 = "".join(tk)
                if t2 not in seenm:
                    seenm.add(t2)
                    fam["mutation"].append(("%s tok%d %s" % (label, i, op), t2))
    # (c) every token string over a small alphabet
    pre = 'version: "3"\n'
    n1 = 4 if tier == "quick" else 5
    for alphabet, maxlen in ((SEQ_TOKENS, n1), (SEQ_TOKENS2, 4 if tier != "quick" else 3)):
        for n in range(0, maxlen + 1):
            for combo in itertools.product(alphabet, repeat=n):
                fam["sequence"].append(("seq", pre + " ".join(combo)))
    for n in range(0, 4):
        for combo in itertools.product(["version", ":", '"3"', "struct", "A", "{", "3", '"'], repeat=n):
            fam["sequence"].append(("seq0", " ".join(combo)))
    # (d) every literal slot x every value form
    forms = ["7", "-1", "1.5", "-2e3", '"s"', "ident", "[1, 2]", "[]", "", "u8", "0x10", "1e400", "99999999999999999999999", '"\\""', "'c'"]
    slots = [
        'version: %s\nstruct A { x @0: u8, }',
        'version: "3"\nstruct A { x @%s: u8, }',
        'version: "3"\nstruct A { x @0: [u8, %s], }',
        'version: "3"\nenum E { a = %s, }',
        'version: "3"\nstruct A { x @0: u8, }\nservice S @%s { method m(A) @0 returns A, }',
        'version: "3"\nstruct A { x @0: u8, }\nservice S @0 { method m(A) @%s returns A, }',
        'version: "3"\nstruct A { x @0: u8 | unit(%s), }',
        'version: "3"\nstruct A { x @0: u8 | range(%s, 1.0), }',
        'version: "3"\nstruct A { x @0: u8 | range(0.0, %s), }',
        'version: "3"\nstruct A { x @0: u8, }\nimpl can for A { id: %s, }',
        'version: "3"\nstruct A { x @0: u8, }\nimpl can for A { signal x { k: %s, }, }',
        'version: "3"\ndevice d { k: %s, }',
        'version: "3"\nstruct A { x @0: u%s, }',
        'version: "3"\nstruct A { x @0: i%s, }',
    ]
    for s in slots:
        for f in forms:
            fam["literal"].append(("slot", s % f))
    for pname in ("unit", "range", "unknown", "Unit", "u8"):
        for args in ("", "()", '("a")', "(1.0)", "(1.0, 2.0)", "(1.0, 2.0, 3.0)", '("a", "b")', "(1.0,)", "(a)", "([1])"):
            fam["literal"].append(("param", 'version: "3"\nstruct A { x @0: u8 | %s%s, }' % (pname, args)))
            fam["literal"].append(("param2", 'version: "3"\nstruct A { x @0: u8 | unit("m") | %s%s, }' % (pname, args)))
    for t in (
        'version: "3"\nenum E { }',
        'version: "3"\nstruct A { }',
        'version: "3"\nimpl can for A { }',
        'version: "3"\nservice S @0 { }',
        'version: "3"\ndevice d { }',
        'version: "3"\nstruct A { x @0: Optional[], }',
        'version: "3"\nstruct A { x @0: [[u8, 2]], y @1: [Optional[[str]], 0], }',
        'version: "3"\nstruct A { x @0: u8, x @0: u8, }\nstruct A { x @0: u8, }',
        'version: "3"\nmod ;',
        'version: "3"\nmod a..b;',
        'version: "3"\nmod nonexistent_module_file;',
        'version: "4"\n',
        'version: "3" version: "3"',
        "",
        "\n",
        "﻿version: \"3\"",
        'version: "3"\r\nstruct A { x @0: u8, }\r\n',
        'version: "3"\nstruct A { x @0: u8, } /* unterminated',
        'version: "3"\nstruct A { x @0: u8 | unit("unterminated), }',
        'version: "3"\nstruct ' + "A" * 5000 + " { x @0: u8, }",
        'version: "3"\nstruct A { x @0: ' + "[" * 60 + "u8" + "]" * 60 + ", }",
        'version: "3"\nstruct A { x @0: ' + "Optional[" * 40 + "u8" + "]" * 40 + ", }",
        'version: "3"\nimpl can for A { k: ' + "[" * 50 + "1" + "]" * 50 + ", }",
    ):
        fam["literal"].append(("misc", t))
    # nesting depth on both sides of the interpreter's recursion budget, in every recursive production
    fam["deep"] = []
    for n in (100, 200, 240, 245, 246, 250, 300, 500, 1000) + ((2000, 3000) if tier != "quick" else ()):
        fam["deep"].append(("dyn-%d" % n, 'version: "3"\nstruct S { a @0: ' + "[" * n + "u8" + "]" * n + ", }\n"))
        fam["deep"].append(("arr-%d" % n, 'version: "3"\nstruct S { a @0: ' + "[" * n + "u8" + ", 1]" * n + ", }\n"))
        fam["deep"].append(("opt-%d" % n, 'version: "3"\nstruct S { a @0: ' + "Optional[" * n + "u8" + "]" * n + ", }\n"))
        fam["deep"].append(("value-%d" % n, 'version: "3"\ndevice d { a: ' + "[" * n + "1" + "]" * n + ", }\n"))
        fam["deep"].append(("undeclared-%d" % n, 'version: "3"\nstruct S { a @0: ' + "[" * n + "Nope" + "]" * n + ", }\n"))
    # every import graph over the files {main, a} (thorough: {main, a, b}), each file importing 0-2 of them
    names = ("main", "a") if tier == "quick" else ("main", "a", "b")
    lists = [()] + [(x,) for x in names] + [(x, y) for x in names for y in names]
    fam["modgraph"] = []
    for combo in itertools.product(lists, repeat=len(names)):
        files = {}
        for nm, imports in zip(names, combo):
            files[nm + ".fcp"] = 'version: "3"\n' + "".join("mod %s;\n" % i for i in imports) + "struct S_%s { x @0: u8, }\n" % nm
        fam["modgraph"].append(("graph:" + ";".join("%s<-%s" % (nm, ",".join(im)) for nm, im in zip(names, combo)), json.dumps(files, sort_keys=True)))
    # layered graphs: two modules per level, each importing both modules of the next level; 2^levels paths reach the leaf.
    # With a valid and with a broken leaf: the work has to follow the number of FILES, not the number of paths.
    for levels in (4, 8, 12, 16) + ((20, 24) if tier != "quick" else ()):
        for leaf_label, leaf in (("valid", "struct L { x @0: u8, }"), ("broken", "struct L { x @0: Missing, }"), ("syntax", "struct L { x @0 u8, }")):
            files = {"main.fcp": 'version: "3"\nmod l0a;\nmod l0b;\n', "leaf.fcp": 'version: "3"\n' + leaf + "\n"}
            for i in range(levels):
                nxt = "mod l%da;\nmod l%db;\n" % (i + 1, i + 1) if i + 1 < levels else "mod leaf;\n"
                for ab in "ab":
                    files["l%d%s.fcp" % (i, ab)] = 'version: "3"\n' + nxt + "struct S%d%s { x @0: u8, }\n" % (i, ab)
            fam["modgraph"].append(("layered:%d:%s" % (levels, leaf_label), json.dumps(files, sort_keys=True)))
    # the main FILE as bytes that are not UTF-8 text
    fam["rawfile"] = [
        ("latin-1", ('version: "3"\n// temperature in \u00b0C\nstruct S { a @0: u8, }\n'.encode("latin-1")).hex()),
        ("utf-16", ('version: "3"\nstruct S { a @0: u8, }\n'.encode("utf-16")).hex()),
        ("random-bytes", bytes(range(128, 256)).hex()),
        ("nul-bytes", (b'version: "3"\n\x00\x00struct S { a @0: u8, }\n').hex()),
    ]
    # text given as a STRING, under states of the working directory (the text has no place on disk; only its imports do)
    fam["cwdstate"] = []
    for state in ("plain", "removed", "symlink-loop", "dangling-symlink", "directory-called-main.fcp", "valid-main.fcp", "undecodable-main.fcp"):
        for tl, t in (
            ("valid", 'version: "3"\nstruct S { a @0: u8, }\n'),
            ("imports-main", 'version: "3"\nmod main;\nstruct S { a @0: u8, }\n'),
            ("imports-missing", 'version: "3"\nmod nothere;\nstruct S { a @0: u8, }\n'),
            ("imports-sub", 'version: "3"\nmod sub.main;\nstruct S { a @0: u8, }\n'),
            ("syntax", 'version: "3"\nstruct S { a @0 u8, }\n'),
            ("undeclared", 'version: "3"\nstruct S { a @0: Nope, }\n'),
        ):
            fam["cwdstate"].append((state + ":" + tl, json.dumps({"state": state, "text": t})))
    return fam


class Timeout(BaseException):
    pass


def _alarm(signum, frame):
    raise Timeout()


def make_worker(tier):
    from fcp.parser import get_fcp_from_string, get_fcp
    from fcp.error import Logger
    from fcp.result import Ok, Err

    # 10 s of the worker's own CPU time (ITIMER_PROF), so that a loaded machine cannot turn a slow parse into a 'hang';
    # a wall-clock alarm of 120 s stays as the backstop for a parse that blocks without computing
    signal.signal(signal.SIGALRM, _alarm)
    signal.signal(signal.SIGPROF, _alarm)

    def check_result(S, family, label, text, res, logger, via):
        inp = {"text": text, "family": family, "case": label, "via": via}
        if not isinstance(res, (Ok, Err)):
            S.add("outcomes", "not-a-result")
            S.violation("C11.result", "C11.result/not-Ok-or-Err/%s" % type(res).__name__, inp, expected="Ok or Err", actual=repr(res)[:300])
            return
        if res.is_ok():
            S.add("outcomes", "ok")
            S.count("accepted")
            return
        S.add("nontrivial", text if len(text) < 200 else common.sha(text))
        err = res.err()
        try:
            rendered = logger.error(err)
            if not isinstance(rendered, str):
                raise TypeError("render returned %s" % type(rendered).__name__)
        except Exception as e:  # noqa
            S.add("outcomes", "render-exc")
            first = (err.msg[0][0] if getattr(err, "msg", None) else repr(err))[:40]
            S.violation("C11.render", "C11.render/exception:%s/%s" % (type(e).__name__, _site(e)), inp, expected="diagnostic string", actual="%s: %s (first message: %s)" % (type(e).__name__, str(e)[:200], first))
            return
        S.add("outcomes", "err:" + (err.msg[0][0].split("'")[0][:30] if err.msg else "?"))
        for msg, node, _where in err.msg:
            if node is None:
                continue
            fname = Path(node.meta.filename).name
            src = logger.sources.get(str(node.meta.filename), logger.sources.get(fname))
            if src is None or not (1 <= node.meta.line <= len(src.split("\n"))):
                S.violation("C11.cite", "C11.cite/cited-line-does-not-exist/%s" % ("unknown-source" if src is None else "line-out-of-range"), inp, expected="line of %s" % fname, actual={"line": node.meta.line, "lines": None if src is None else len(src.split("\n")), "message": msg[:100]})
            elif src.split("\n")[node.meta.line - 1] not in rendered:
                # the diagnostic quotes the cited line: it must be the line of the CURRENT source
                S.violation("C11.cite", "C11.cite/quoted-line-is-not-the-cited-source-line", inp, expected=src.split("\n")[node.meta.line - 1], actual=rendered[-400:])

    def _site(e):
        import traceback

        tb = traceback.extract_tb(e.__traceback__)
        for fr in reversed(tb):
            if "/fcp/" in fr.filename:
                return "%s:%s" % (os.path.basename(fr.filename), fr.name)
        return "?"

    def one(S, family, label, text, via="string"):
        S.count("executions")
        S.count("states")
        S.count("transitions")
        logger = Logger({})
        signal.setitimer(signal.ITIMER_PROF, 10.0)
        signal.alarm(120)
        try:
            if via == "string":
                res = get_fcp_from_string(text, logger)
            else:
                res = get_fcp(via, logger)
            signal.setitimer(signal.ITIMER_PROF, 0)
            signal.alarm(0)
        except Timeout:
            S.add("outcomes", "timeout")
            S.violation("C11.terminate", "C11.terminate/timeout-10s/%s" % family, {"text": text, "family": family, "case": label}, expected="terminates", actual="still running after 10 s of CPU time")
            return
        except Exception as e:  # noqa
            signal.setitimer(signal.ITIMER_PROF, 0)
            signal.alarm(0)
            S.add("outcomes", "exception:" + type(e).__name__)
            S.add("nontrivial", text if len(text) < 200 else common.sha(text))
            inner = getattr(e, "orig_exc", None)
            kind = type(e).__name__ + (":" + type(inner).__name__ if inner is not None else "")
            S.violation("C11.total", "C11.total/exception-escapes/%s/%s" % (kind, _site(inner if inner is not None else e)), {"text": text, "family": family, "case": label, "via": "string" if via == "string" else "file"}, expected="Ok or Err", actual="%s: %s" % (kind, str(e)[:300]))
            return
        finally:
            signal.setitimer(signal.ITIMER_PROF, 0)
            signal.alarm(0)
        check_result(S, family, label, text, res, logger, "string" if via == "string" else "file")

    def work(chunk):
        S = Stats()
        for family, label, text in chunk:
            if family == "rawfile":
                td = tempfile.mkdtemp(prefix="fcpmc-c11-")
                try:
                    open(os.path.join(td, "main.fcp"), "wb").write(bytes.fromhex(text))
                    one(S, family, label, text, via=os.path.join(td, "main.fcp"))
                finally:
                    shutil.rmtree(td, ignore_errors=True)
            elif family == "modgraph":
                td = tempfile.mkdtemp(prefix="fcpmc-c11-")
                try:
                    for fn, body in json.loads(text).items():
                        open(os.path.join(td, fn), "w").write(body)
                    one(S, family, label, text, via=os.path.join(td, "main.fcp"))
                finally:
                    shutil.rmtree(td, ignore_errors=True)
            elif family == "cwdstate":
                d = json.loads(text)
                td = tempfile.mkdtemp(prefix="fcpmc-c11-")
                cwd = os.getcwd()
                try:
                    os.chdir(td)
                    st = d["state"]
                    if st == "removed":
                        os.rmdir(td)
                    elif st == "symlink-loop":
                        os.symlink("main.fcp", "main.fcp")
                    elif st == "dangling-symlink":
                        os.symlink("gone.fcp", "main.fcp")
                    elif st == "directory-called-main.fcp":
                        os.mkdir("main.fcp")
                    elif st == "valid-main.fcp":
                        open("main.fcp", "w").write('version: "3"\nstruct M { m @0: u8, }\n')
                    elif st == "undecodable-main.fcp":
                        open("main.fcp", "wb").write(bytes(range(128, 256)))
                    one(S, family, label, d["text"])
                finally:
                    os.chdir(cwd)
                    shutil.rmtree(td, ignore_errors=True)
            elif family == "module":
                td = tempfile.mkdtemp(prefix="fcpmc-c11-")
                try:
                    open(os.path.join(td, "main.fcp"), "w").write('version: "3"\nmod m1;\nstruct Z { z @0: u8, }\n')
                    open(os.path.join(td, "m1.fcp"), "w", newline="").write(text)
                    one(S, family, label, text, via=os.path.join(td, "main.fcp"))
                finally:
                    shutil.rmtree(td, ignore_errors=True)
            else:
                one(S, family, label, text)
            if len(S.samples) < 1 and family != "prefix":
                S.sample({"family": family, "case": label, "text": text[:200]})
        return S

    return work


HIST_TEXTS = [
    'version: "3"\nstruct A { x @0: u8, }\n',
    'version: "3"\n\n\nstruct A {\n x @0: u8,\n y @1: Zz,\n}\n',
    'version: "3"\nstruct A { x @0: u8 }\n',
    'version: "3"\nenum E { a = 0, }\n\n\n\n\nstruct B { e @0: E, f @1: Nope, }\n',
    'version: "3"\nstruct A { x @1.5: u8, }',
    'version: "4"\n',
    "",
]


def run_logger_histories(S, tier):
    """Every sequence (length <= 3, thorough 4) of parses through ONE Logger object, explored by
    fork-snapshot; after each parse the result must be Ok or an Err that renders and quotes the current text."""
    from fcp.parser import get_fcp_from_string
    from fcp.error import Logger
    from ..common import fork_histories

    depth = 3 if tier == "quick" else 4
    live = {"logger": Logger({}), "errors": []}

    def stale(lg):
        """Re-render every error an EARLIER parse through this logger returned: it must still render, and
        still quote the line of the text that produced it."""
        out = []
        for k, (text, err) in enumerate(live["errors"]):
            try:
                rendered = lg.error(err)
            except Exception as e:  # noqa
                out.append("error of parse #%d no longer renders: %s" % (k, type(e).__name__))
                continue
            lines = text.split("\n")
            for msg, node, _w in err.msg:
                if node is not None and 1 <= node.meta.line <= len(lines) and lines[node.meta.line - 1] not in rendered:
                    out.append("error of parse #%d now quotes a line of another text" % k)
                    break
        return out

    def apply_op(op, hist):
        text = HIST_TEXTS[op]
        lg = live["logger"]
        try:
            res = get_fcp_from_string(text, lg)
        except Exception as e:  # noqa
            return {"exc": "%s: %s" % (type(e).__name__, str(e)[:200])}
        st = stale(lg)
        if res.is_ok():
            return {"ok": True, "stale": st}
        err = res.err()
        live["errors"].append((text, err))
        try:
            rendered = lg.error(err)
        except Exception as e:  # noqa
            return {"render_exc": "%s: %s" % (type(e).__name__, str(e)[:200])}
        bad = []
        for msg, node, _w in err.msg:
            if node is None:
                continue
            lines = text.split("\n")
            if not (1 <= node.meta.line <= len(lines)):
                bad.append("line %d of %d" % (node.meta.line, len(lines)))
            elif lines[node.meta.line - 1] not in rendered:
                bad.append("quotes another text than line %d: %r" % (node.meta.line, lines[node.meta.line - 1]))
        return {"err": True, "bad": bad, "rendered_tail": rendered[-300:] if bad else "", "stale": st}

    for hist, o in fork_histories(list(range(len(HIST_TEXTS))), depth, apply_op):
        S.count("states")
        S.count("transitions")
        S.count("executions")
        S.count("logger_histories")
        S.add("nontrivial", ("hist", hist))
        inp = {"family": "logger-history", "ops": ["parse:%d" % h for h in hist], "texts": HIST_TEXTS}
        if "exc" in o or "exception" in o or "harness_error" in o:
            S.violation("C11.total", "C11.total/exception-escapes/logger-history", inp, expected="Ok or Err", actual=o)
        elif "render_exc" in o:
            S.violation("C11.render", "C11.render/exception/logger-history", inp, expected="diagnostic string", actual=o)
        elif o.get("bad"):
            S.violation("C11.cite", "C11.cite/stale-or-missing-line/logger-history", inp, expected="cites and quotes a line of the text just parsed", actual=o)
        for what in sorted(set(re.sub(r"#\d+", "#k", w) for w in o.get("stale", []))):
            kind = "no-longer-renders" if "renders" in what else "quotes-another-text"
            S.violation("C11.cite", "C11.cite/earlier-error-after-a-later-parse-through-the-same-logger/%s" % kind, inp, expected="an error value stays renderable and keeps citing its own source", actual=o["stale"])
        S.add("outcomes", "hist:" + ("ok" if "ok" in o else "err") + (":stale" if o.get("stale") else ""))


def run(tier):
    common.bind_repo()
    r = Run("C11", tier)
    fam = gen_inputs(tier)
    # (e) the same inside an imported module: prefixes of one module text + the literal family
    mod_text = 'version: "3"\nenum E { a = 0, }\nstruct M { x @0: E | unit("m"), }\nimpl can for M { id: 1, }\n'
    fam["module"] = [("module-prefix[:%d]" % k, mod_text[:k]) for k in range(len(mod_text) + 1)] + [("module-" + l, t) for l, t in fam["literal"]]
    # the same literals pushed to a line number the (3-line) importing file does not have
    fam["module"] += [("module-late-" + l, t.replace('version: "3"\n', 'version: "3"\n\n/* pad */\n\n\nstruct Pad { p @0: u8, }\n\n', 1)) for l, t in fam["literal"] if t.startswith('version: "3"\n')]
    items = []
    fam["module"] += [("module-" + l, t) for l, t in fam["deep"]]
    for family in ("literal", "deep", "modgraph", "rawfile", "cwdstate", "module", "sequence", "mutation", "prefix"):
        for label, text in fam[family]:
            items.append((family, label, text))
    r.bounds = {f: len(v) for f, v in fam.items()}
    for s in pmap(make_worker(tier), chunks(items, 400)):
        r.stats.merge(s)
    run_logger_histories(r.stats, tier)
    r.bounds["logger_history_depth"] = 3 if tier == "quick" else 4
    r.rule = (
        "inputs = every prefix (character boundary) of every corpus text (all .fcp files of the repository + the C07 descriptions), every single-token mutation "
        "(delete, duplicate, swap with next, replace by each of %d tokens) at every token position of the example/golden files, every token string over two 12-token alphabets up to the "
        "length bound after a valid preamble (and up to 3 with none), every literal slot x every value form, every param name x arity, and the same inside an imported module; six texts given as a STRING under seven states of the working directory (removed, a symlink loop / dangling link / directory / valid / undecodable file called main.fcp). "
        "Each is one execution of the real parser (+ Logger.error on Err); plus every sequence of parses (7 texts, length <= 3/4) through ONE Logger object (fork-snapshot). non-trivial = distinct inputs that are not accepted." % len(MUT_TOKENS)
    )
    r.assumptions = ["termination is decided within 10 s of CPU time per input (wall-clock backstop 120 s)"]
    return r.finish()


def replay(doc):
    common.bind_repo()
    from fcp.parser import get_fcp_from_string
    from fcp.error import Logger

    text = doc["input"]["text"]
    print(repr(text))
    lg = Logger({})
    try:
        r = get_fcp_from_string(text, lg)
        print("result:", "Ok" if r.is_ok() else r)
        if r.is_err():
            print(lg.error(r.err()))
    except Exception as e:  # noqa
        print("exception", type(e).__name__, str(e)[:500])
    return 0
