"""C18: C++ CAN frame wrapper: frames carry the binding's id, bus and size; static and
reflection-loaded CAN schemas agree."""

from __future__ import annotations

import itertools

from .. import common, refcodec, shapes, cppbuild
from ..schema import STR, U, I, F32, F64, Arr, St, enum_with_max, Hoister, print_schema, struct_decl, type_str
from ..common import Stats, Run, pmap, chunks
from .cpp import to_json_value, from_json_value

PAYLOADS = [
    ("b1", (U(1),)),
    ("b7", (U(7),)),
    ("b8", (I(8),)),
    ("b9", (U(9),)),
    ("b33", (I(33),)),
    ("b64", (U(64),)),
    ("mix", (U(3), I(5), F32)),
    ("enumarr", (enum_with_max(5), Arr(U(4), 2), St(I(6), U(2)))),
    ("f64", (F64,)),
    ("unal", (U(4), U(8), U(4), U(16))),
    # payloads that can exceed the 8 data bytes of a frame: always (72 bits), or depending on the value (a string)
    ("over", (U(64), U(8))),
    ("text", (STR,)),
    ("over2", (U(8), Arr(U(16), 4))),
]
IDS = (0, 1, 100, 2047)
BUSES = ("a", "ab", "abc", "abcd")


def schemas(tier):
    """Each schema: list of bindings (struct name, payload fields, id, bus)."""
    out = []
    # 1. every payload x id x bus length, grouped so that one schema holds one payload on all 4 bus lengths with 4 ids
    for pi, (pl, fields) in enumerate(PAYLOADS):
        for rot in range(4 if tier != "quick" else 2):
            b = []
            for k in range(4):
                b.append(("M%s%d" % (pl.capitalize()[:3], k), fields, IDS[(k + rot) % 4], BUSES[k]))
            out.append(("payload:" + pl, b))
    # 2. dispatch among bindings: same id on prefix-related buses, same bus with different ids, long names
    for pa, pb, pc in itertools.product(range(5), repeat=3) if tier != "quick" else [(0, 1, 2), (2, 2, 2), (4, 0, 6), (1, 0, 0), (3, 4, 1)]:
        out.append(("dispatch", [("Msg0", PAYLOADS[pa][1], 1, "ab"), ("Msg1", PAYLOADS[pb][1], 1, "abc"), ("LongMessageName2", PAYLOADS[pc][1], 2, "ab")]))
    out.append(("dispatch", [("A", PAYLOADS[3][1], 2047, "x"), ("B", PAYLOADS[6][1], 2047, "xy"), ("C", PAYLOADS[1][1], 0, "x")]))
    out.append(("single", [("Only", PAYLOADS[6][1], 100, "can1")]))
    out.append(("single", [("O", PAYLOADS[2][1], 0, "z")]))
    # bindings of ANOTHER protocol that carry an id and a bus too: they are no CAN bindings, whatever they are declared next to
    out.append(("other-protocol", [("Speed", PAYLOADS[1][1], 16, "b1"), ("Door", PAYLOADS[0][1], 34, "b1", "lin"), ("Temp", PAYLOADS[2][1], 35, "bus2")]))
    out.append(("other-protocol", [("Diag", PAYLOADS[0][1], 10, "b1", "lin"), ("Speed", PAYLOADS[1][1], 10, "b1"), ("Aux", PAYLOADS[2][1], 10, "b1", "uart")]))
    # the generator's own headers included in another order (fcp_can.h ahead of the CAN wrappers)
    out.append(("order:protocols-first", [("Msg0", PAYLOADS[6][1], 1, "ab"), ("Msg1", PAYLOADS[3][1], 2, "abcd")]))
    # bus names that do not fit the four bytes of the tag: both wrappers must give the same, truncated, tag and stay in their memory
    out.append(("long-bus", [("Pt", PAYLOADS[2][1], 5, "powertrain"), ("Ch", PAYLOADS[1][1], 6, "chass")]))
    out.append(("long-bus", [("Eu", PAYLOADS[2][1], 5, "\u20ac\u20ac"), ("Ab", PAYLOADS[1][1], 6, "abcd")]))
    return out


def pad_bus(bus):
    b = list(bus.encode("utf-8"))[:4]
    return b + [0] * (4 - len(b))


def run_schema(item):
    from fcp.parser import get_fcp_from_string
    from fcp.error import Logger
    from fcp.reflection import get_reflection_schema
    from fcp import serde

    idx, (label, all_bindings) = item
    S = Stats()
    S.count("states")
    h = Hoister()
    decls = []
    structs = {}
    for b in all_bindings:
        name, fields, fid, bus = b[:4]
        st = ("st", tuple(("f%d" % i, i, t) for i, t in enumerate(fields)))
        structs[name] = st
        decls.append(struct_decl(name, st, h))
        decls.append(("impl", b[4] if len(b) > 4 else "can", name, None, (("id", fid), ("bus", bus)), ()))
    decls = h.decls + decls
    bindings = [b[:4] for b in all_bindings if len(b) < 5 or b[4] == "can"]
    others = [b[:4] for b in all_bindings if len(b) > 4 and b[4] != "can"]
    text = print_schema(decls)
    env = refcodec.Env(decls)
    inp0 = {"text": text}
    fcp = get_fcp_from_string(text, Logger({})).unwrap()
    files = cppbuild.generate_cpp(fcp)
    # the long-bus schemas run under AddressSanitizer: writing past a 4-byte tag does not have to change any answer
    exe, err = cppbuild.build(files, header_order=("protocols-first" if label.startswith("order:") else "default"), sanitize=(label == "long-bus"))
    S.count("executions")
    if exe is None:
        S.violation("C18.compile", "C18.compile/cc-error/%s" % cppbuild.first_error(err), inp0, expected="compiles", actual=err[-800:])
        return S
    rschema = get_reflection_schema().unwrap()
    refl = bytes(serde.encode(rschema, "Fcp", fcp.reflection()))
    reqs, index = [], []
    by_key = {(fid, bus): name for name, _f, fid, bus in bindings}
    for name, fields, fid, bus in bindings:
        st = structs[name]
        for v in shapes.struct_values(st, json_safe=True, limit=12):
            ref = refcodec.encode(env, name, v)
            if len(ref) > 8:
                # no frame can carry this value: the wrapper has to refuse, not return a frame
                for which in ("static", "dynamic"):
                    reqs.append({"op": "can_enc", "which": which, "name": name, "value": to_json_value(st, v, which == "dynamic")})
                    index.append(("enc-over", which, name, v, {"sid": fid, "bus": pad_bus(bus), "dlc": len(ref), "data": list(ref)}, None))
                continue
            frame = {"sid": fid, "bus": pad_bus(bus), "dlc": len(ref), "data": list(ref) + [0] * (8 - len(ref))}
            long_bus = len(bus.encode("utf-8")) > 4
            for which in ("static", "dynamic"):
                reqs.append({"op": "can_enc", "which": which, "name": name, "value": to_json_value(st, v, which == "dynamic")})
                index.append(("enc", which, name, v, frame, None))
                if long_bus:
                    continue  # a tag cannot identify a bus it cannot hold: only the (truncated) tag itself is judged
                reqs.append({"op": "can_dec", "which": which, "frame": frame})
                index.append(("dec", which, name, v, frame, (name, v)))
        # non-matching frames, built from the encoding of the first value
        v0 = [x for x in shapes.struct_values(st, json_safe=True, limit=12) if len(refcodec.encode(env, name, x)) <= 8]
        if not v0 or len(bus.encode("utf-8")) > 4:
            continue
        v0 = v0[-1]
        ref0 = refcodec.encode(env, name, v0)
        base = {"sid": fid, "bus": pad_bus(bus), "dlc": len(ref0), "data": list(ref0) + [0] * (8 - len(ref0))}
        variants = []
        for other in sorted(set(IDS) | {5, 2046} | {fid | 0x800, fid | 0x8000, (fid + 0x800) & 0xFFFF} | {o[2] for o in others}):
            variants.append(("sid=%d" % other, dict(base, sid=other)))
        for _on, _of, oid, obus in others:
            # the (id, bus) of a binding of another protocol: a CAN frame with them is a frame like any other
            variants.append(("sid=%d" % oid, dict(base, sid=oid, bus=pad_bus(obus))))
        for pos in range(4):
            for ch in (0, ord("a"), ord("b"), ord("c"), ord("d"), ord("x"), ord("y"), 255):
                b2 = list(base["bus"])
                if b2[pos] == ch:
                    continue
                b2[pos] = ch
                variants.append(("bus[%d]=%d" % (pos, ch), dict(base, bus=b2)))
        for lbl, fr in variants:
            key = (fr["sid"], "".join(chr(c) for c in fr["bus"] if c))
            # a bus with an embedded NUL followed by characters can match nothing
            embedded = any(fr["bus"][i] == 0 and any(fr["bus"][i + 1 :]) for i in range(4))
            target = None if embedded else by_key.get(key)
            if target is None:
                exp = None
            else:
                try:
                    exp = (target, refcodec.decode(env, target, bytes(fr["data"])))
                except refcodec.DecodeError:
                    continue
            for which in ("static", "dynamic"):
                reqs.append({"op": "can_dec", "which": which, "frame": fr})
                index.append(("dec-" + lbl.split("=")[0].split("[")[0], which, name, v0, fr, exp))
    answers = cppbuild.run_requests(exe, reqs, refl)
    longbus = {}
    for (op, which, name, v, frame, exp), a in zip(index, answers):
        S.count("executions")
        S.count("transitions")
        st = structs[name]
        inp = dict(inp0, op=op, which=which, binding=name, value=v, frame=frame)
        if "crash" in a or "garbled" in a:
            S.add("outcomes", "crash")
            S.violation("C18.run", "C18.run/crash/%s" % which, inp, expected="answer", actual=a)
            break
        if op == "enc" and len([b for b in frame["bus"] if b]) == 4 and label == "long-bus" and any(len(bu.encode("utf-8")) > 4 and n2 == name for n2, _f, _i, bu in bindings):
            # a bus name the 4-byte tag cannot hold: the truncated tag or a refusal, but the same from both schemas
            kind = "frame" if a.get("frame") == frame else "refused" if ("null" in a or "exc" in a) else "other"
            longbus.setdefault((name, str(v)), {})[which] = kind
            if kind == "other":
                S.add("outcomes", "long-bus-differs")
                S.violation("C18.encode", "C18.encode/long-bus-name/%s" % which, inp, expected={"truncated tag": frame, "or": "refusal"}, actual=a)
            else:
                S.add("outcomes", "long-bus:" + kind)
                S.add("nontrivial", (idx, name, str(v)))
            continue
        if op == "enc-over":
            if "null" in a or "exc" in a:
                S.add("outcomes", "oversize-refused")
                S.add("nontrivial", (idx, name, str(v)))
            else:
                S.add("outcomes", "oversize-framed")
                S.violation("C18.encode", "C18.encode/payload-over-8-bytes-not-refused/%s" % which, inp, expected="no frame (the canonical payload has %d bytes)" % frame["dlc"], actual=a)
        elif op == "enc":
            got = a.get("frame")
            if got == frame:
                S.add("outcomes", "enc-ok:%d:%d" % (frame["dlc"], len([c for c in frame["bus"] if c])))
                S.add("nontrivial", (idx, name, str(v)))
            else:
                what = "exception" if "exc" in a else "unknown" if "null" in a else next((k for k in ("sid", "bus", "dlc", "data") if got.get(k) != frame[k]), "?")
                S.add("outcomes", "enc-differs")
                S.violation("C18.encode", "C18.encode/%s-differs/%s/buslen=%d" % (what, which, len([c for c in frame["bus"] if c])), inp, expected=frame, actual=a)
        else:
            if exp is None:
                if "null" in a:
                    S.add("outcomes", "unknown-ok")
                else:
                    S.add("outcomes", "unknown-matched")
                    S.violation("C18.dispatch", "C18.dispatch/non-matching-frame-decoded/%s/%s" % (which, op), inp, expected="unknown (null)", actual=a)
            else:
                tname, tval = exp
                ok = False
                detail = a
                if a.get("name") == tname and "value" in a:
                    try:
                        gv = from_json_value(structs[tname], a["value"], which == "dynamic")
                        ok = refcodec.same(gv, tval)
                        detail = {"name": a["name"], "value": gv}
                    except ValueError as e:
                        detail = {"unreadable": str(e), "raw": a}
                if ok:
                    S.add("outcomes", "dec-ok")
                else:
                    S.add("outcomes", "dec-differs")
                    what = "not-recognised" if "null" in a else "exception" if "exc" in a else "wrong-binding" if a.get("name") != tname else "value"
                    S.violation("C18.decode", "C18.decode/%s/%s/buslen=%d/%s" % (what, which, len([c for c in frame["bus"] if c]), op), inp, expected={"name": tname, "value": tval}, actual=detail)
    for key, kinds in longbus.items():
        if len(set(kinds.values())) > 1:
            S.violation("C18.encode", "C18.encode/long-bus-name/static-and-dynamic-disagree", dict(inp0, binding=key[0], value=key[1]), expected="the same answer from both schemas", actual=kinds)
    S.sample({"schema": label, "bindings": [(n, i, b) for n, _f, i, b in bindings], "requests": len(reqs)})
    return S


def run(tier):
    common.bind_repo()
    r = Run("C18", tier)
    sc = schemas(tier)
    r.bounds = {"schemas": len(sc), "payload_bits": [1, 7, 8, 9, 33, 64, 40, 27], "ids": list(IDS), "bus_lengths": [1, 2, 3, 4]}
    for s in pmap(run_schema, list(enumerate(sc))):
        r.stats.merge(s)
    cppbuild.trim_cache()
    r.rule = (
        "states = schemas with 1..4 CAN bindings named after their struct (payloads of 1,7,8,9,33,64 bits and mixed, ids {0,1,100,2047}, bus names of every length 1..4, prefix-related bus names, a long message name); "
        "for every boundary value: Encode through Can{CanStaticSchema} and Can{CanDynamicSchema(loaded reflection)} must give sid/bus/dlc/data of the reference frame; Decode of that frame the binding and value; "
        "every frame with the id or one bus character changed decodes to the binding it now matches or to unknown. non-trivial = distinct (schema, binding, value) encoded correctly."
    )
    r.assumptions = ["g++ 12, nlohmann/json", "bindings are named after their struct (the static schema dispatches on struct names)"]
    return r.finish()


def replay(doc):
    from .cpp import replay as r

    return r(doc)
