"""C12: reflection is a lossless, faithful description of the schema."""

from __future__ import annotations

import json

from .. import common, reftree, descs, refcodec
from ..schema import print_schema
from ..common import Stats, Run, pmap, chunks
from .c07 import classify


def strip_meta(x):
    if isinstance(x, dict):
        return {k: strip_meta(v) for k, v in x.items() if k != "meta"}
    if isinstance(x, list):
        return [strip_meta(v) for v in x]
    return x


def make_worker(tier):
    from fcp.parser import get_fcp_from_string
    from fcp.error import Logger
    from fcp.reflection import get_reflection_schema
    from fcp import serde

    rschema = get_reflection_schema().unwrap()

    def work(chunk):
        S = Stats()
        for idx, (label, decls) in chunk:
            S.count("states")
            text = print_schema(decls)
            inp = {"text": text, "description": decls}
            r = get_fcp_from_string(text, Logger({}))
            if r.is_err():
                S.count("skipped_not_accepted")
                continue
            fcp = r.unwrap()
            if len(decls) >= 2:
                S.add("nontrivial", idx)
            S.count("executions")
            S.count("transitions")
            try:
                rec = fcp.reflection()
            except Exception as e:  # noqa
                S.add("outcomes", "reflection-exc")
                S.violation("C12.reflection", "C12.reflection/exception:%s/%s" % (type(e).__name__, label), inp, expected="record", actual="%s: %s" % (type(e).__name__, str(e)[:200]))
                continue
            # a second call on the same object must give the same record and leave the first one untouched
            import copy

            snap = copy.deepcopy(rec)
            S.count("executions")
            try:
                rec2 = fcp.reflection()
            except Exception as e:  # noqa
                rec2 = "%s: %s" % (type(e).__name__, str(e)[:100])
            if not (isinstance(rec2, dict) and refcodec.same(rec2, snap) and refcodec.same(rec, snap)):
                S.violation("C12.repeat", "C12.repeat/second-reflection-differs/" + label, inp, expected=strip_meta(snap), actual={"second": strip_meta(rec2) if isinstance(rec2, dict) else rec2, "first_after_second_call": strip_meta(rec)})
            exp = reftree.expected_reflection(decls)
            diffs = reftree.project_diff(exp, rec)
            if diffs:
                S.add("outcomes", "record-differs")
                S.violation("C12.record", "C12.record/differs/" + classify(label, diffs), inp, expected=exp, actual={"diffs": diffs[:8], "record": strip_meta(rec)})
            S.count("executions")
            try:
                enc = serde.encode(rschema, "Fcp", rec)
                dec = serde.decode(rschema, "Fcp", bytearray(enc))
            except Exception as e:  # noqa
                S.add("outcomes", "serde-exc")
                S.violation("C12.roundtrip", "C12.roundtrip/exception:%s/%s" % (type(e).__name__, label), inp, expected="bytes and back", actual="%s: %s" % (type(e).__name__, str(e)[:300]))
                continue
            if refcodec.same(dec, rec):
                S.add("outcomes", ("ok", label, len(enc) // 64))
            else:
                S.add("outcomes", "roundtrip-differs")
                d2 = reftree.project_diff(_exactify(rec), dec)
                key = classify(label, d2 or ["/?"])
                if d2 and all(x.endswith(": expected -2147483648 got 2147483648") for x in d2):
                    # the reflection schema's only signed type is i32: this is the open serde finding, nothing else
                    key = "signed-minimum-decodes-as-positive"
                S.violation("C12.roundtrip", "C12.roundtrip/record-differs/" + key, inp, expected=rec, actual={"diffs": d2[:8], "decoded": dec})
            if len(S.samples) < 2:
                S.sample({"label": label, "text": print_schema(decls, "compact"), "encoded_bytes": len(enc)})
        return S

    return work


def _exactify(x):
    if isinstance(x, dict):
        return {k: _exactify(v) for k, v in x.items()}
    if isinstance(x, list):
        return [_exactify(v) for v in x]
    return reftree.Exact(x)


def run_module_cases(S, tier):
    """Schemas spread over imported modules: the record must still list every declaration (the
    reflection of a split schema equals, per category, that of the single-file schema)."""
    import json
    import os
    import shutil
    import tempfile
    from fcp.parser import get_fcp, get_fcp_from_string
    from fcp.error import Logger
    from . import c20

    for bname, base in c20.BASES.items():
        single = strip_meta(get_fcp_from_string(print_schema(base), Logger({})).unwrap().reflection())
        want = {k: sorted(json.dumps(x, sort_keys=True) for x in single[k]) for k in ("structs", "enums", "impls", "services")}
        sp = c20.splits(base, "quick")
        for k, (label, files) in enumerate(sp):
            if k % (9 if tier == "quick" else 2):
                continue
            S.count("states")
            S.count("transitions")
            S.count("executions")
            S.add("nontrivial", ("module", bname, k))
            td = tempfile.mkdtemp(prefix="fcpmc-c12-")
            try:
                texts = c20.write_tree(td, files)
                r = get_fcp(os.path.join(td, "main.fcp"), Logger({}))
                if r.is_err():
                    continue  # C20's subject
                rec = strip_meta(r.unwrap().reflection())
                got = {c: sorted(json.dumps(x, sort_keys=True) for x in rec[c]) for c in want}
                bad = [c for c in want if want[c] != got[c]]
                if bad:
                    S.add("outcomes", "module-record-differs")
                    S.violation("C12.modules", "C12.modules/record-misses-module-declarations/" + ",".join(bad), {"files": texts, "split": label}, expected={c: want[c] for c in bad}, actual={c: got[c] for c in bad})
                else:
                    S.add("outcomes", "module-ok")
            finally:
                shutil.rmtree(td, ignore_errors=True)


def run_after_generate(S, tier):
    """The record of a parsed schema is a function of its source: every sequence of generator runs (length <= 2,
    thorough 3) on the parsed object leaves fcp.reflection() what it was before (a generator that writes defaults or
    a sort into the tree it was handed shows here)."""
    import contextlib
    import io
    import itertools
    import shutil
    import tempfile
    from fcp.parser import get_fcp_from_string
    from fcp.error import Logger
    from . import c17, c20

    texts = dict(c17.EXTRA)
    for bname, base in c20.BASES.items():
        texts["c20:" + bname] = print_schema(base)
    scratch = tempfile.mkdtemp(prefix="fcpmc-c12g-")
    try:
        for name, text in sorted(texts.items()):
            want = get_fcp_from_string(text, Logger({})).unwrap().reflection()
            for n in (1, 2) if tier == "quick" else (1, 2, 3):
                for seq in itertools.product(c17.GENERATORS, repeat=n):
                    S.count("states")
                    S.count("executions")
                    S.add("nontrivial", ("after-generate", name, seq))
                    fcp = get_fcp_from_string(text, Logger({})).unwrap()
                    for g in seq:
                        S.count("transitions")
                        with contextlib.redirect_stdout(io.StringIO()):
                            c17.generate(g, fcp, scratch)
                    try:
                        got = fcp.reflection()
                    except Exception as e:  # noqa
                        got = "%s: %s" % (type(e).__name__, str(e)[:200])
                    if isinstance(got, dict) and refcodec.same(strip_meta(got), strip_meta(want)):
                        S.add("outcomes", "after-generate-ok")
                    else:
                        S.add("outcomes", "after-generate-differs")
                        d = reftree.project_diff(_exactify(strip_meta(want)), strip_meta(got)) if isinstance(got, dict) else [got]
                        S.violation("C12.history", "C12.history/record-differs-after-generating/%s" % "+".join(sorted(set(seq))), {"text": text, "schema": name, "generators_run_first": list(seq)}, expected="the record of the freshly parsed text", actual={"diffs": d[:8]})
    finally:
        shutil.rmtree(scratch, ignore_errors=True)


def run(tier):
    common.bind_repo()
    r = Run("C12", tier)
    ds, transitions = descs.descriptions(tier)
    r.bounds = {"descriptions": len(ds)}
    for s in pmap(make_worker(tier), chunks(list(enumerate(ds)), 8)):
        r.stats.merge(s)
    r.stats.c["transitions"] += transitions
    run_module_cases(r.stats, tier)
    run_after_generate(r.stats, tier)
    r.rule = (
        "states = C07's schema descriptions (every node kind, with/without units, ranges, signal blocks, services; type nesting to the depth bound); "
        "each is parsed, reflected (FcpV2.reflection), compared with the record computed from the description (projection on the attributes the statement names), "
        "serialized with the built-in reflection schema through serde and decoded back (must equal the record, floats bit-exact). Plus: schemas split over modules (record equals the single file's), and every sequence of <= 2 (thorough 3) generator runs on a parsed object followed by reflection (record equals that of the fresh parse). non-trivial = >= 2 declarations."
    )
    r.assumptions = ["expected record builder fcpmc/reftree.py", "meta values are only required to survive the round trip"]
    return r.finish()


def replay(doc):
    common.bind_repo()
    from fcp.parser import get_fcp_from_string
    from fcp.error import Logger
    from fcp.reflection import get_reflection_schema
    from fcp import serde

    fcp = get_fcp_from_string(doc["input"]["text"], Logger({})).unwrap()
    try:
        rec = fcp.reflection()
        print("record:", json.dumps(strip_meta(rec))[:1500])
        rs = get_reflection_schema().unwrap()
        dec = serde.decode(rs, "Fcp", bytearray(serde.encode(rs, "Fcp", rec)))
        print("roundtrip equal:", refcodec.same(dec, rec))
    except Exception as e:  # noqa
        print("exception", type(e).__name__, e)
    return 0
