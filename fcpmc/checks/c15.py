"""C15: field ids, not declaration order, fix the wire order in every back end."""

from __future__ import annotations

import itertools
import os
import shutil
import tempfile

from .. import common, refcodec, reflayout, shapes, cbuild, cppbuild, dbcread
from ..schema import U, I, F32, F64, STR, Arr, Dyn, Opt, St, enum_with_max, Hoister, print_schema, struct_decl, type_str
from ..common import Stats, Run, pmap, chunks
from .codec import class_skeleton
from .cpp import to_json_value, from_json_value

# nested structs whose own fields are declared out of id order: a permutation hidden one level down
OOO = ("st", (("a", 1, U(3)), ("b", 0, I(6))))
OOO3 = ("st", (("a", 2, U(8)), ("b", 0, U(8)), ("c", 1, U(8))))
KINDS12 = [U(1), U(3), U(8), U(13), I(5), I(16), F32, STR, enum_with_max(5), St(U(3), I(6)), Arr(U(4), 2), Opt(U(8)), OOO, Arr(OOO3, 2)]
KINDS6 = [U(3), U(8), I(5), F32, STR, enum_with_max(2), OOO]
KINDS5 = [U(3), I(13), enum_with_max(5), Dyn(U(8)), F64]
# a fixed ascending injection: sparse, above 255 and 65535, and already the first two (three) ids come in
# another order when truncated to 8 (16) bits: 258, 513, 65537 -> 2, 1, 1 (mod 256) and 258, 513, 1 (mod 65536)
IDS = (258, 513, 65537, 4000000014, 4000000015)


def bases(tier):
    out = []
    for c in itertools.product(KINDS12, repeat=2):
        out.append(c)
    for c in itertools.product(KINDS6, repeat=3):
        out.append(c)
    if tier != "quick":
        for c in itertools.product(KINDS5, repeat=4):
            out.append(c)
    out.append(("DENSE", U(3), I(13), U(8), I(5)))
    out.append(("DENSE", U(8), I(5), F32))
    out.append(("DENSE", U(1), I(7), U(12), enum_with_max(5), U(4)))
    if tier == "quick":
        # four and five fields (every permutation of them): orders in which the first and the last field stay in place
        out.append((U(3), I(13), U(8), I(5)))
        out.append((U(8), U(8), U(8), U(8)))
        out.append((U(1), I(7), U(12), enum_with_max(5), U(4)))
    # permutations hidden inside a nested struct
    inners = [(U(3), I(6)), (U(3), I(6), U(8)), (U(8), U(8), U(8)), (I(5), F32, enum_with_max(5))]
    if tier != "quick":
        inners += [(U(1), U(2), U(3), U(4)), (STR, U(3), I(6))]
    for inner in inners:
        for wrap in ("plain", "arr", "opt", "dyn", "deep"):
            if any(t == STR for t in inner) and wrap in ("plain", "arr", "deep"):
                pass
            for extra in (U(3), I(8)):
                out.append(("NESTED", wrap, inner, extra))
    return out


def is_fixed(t):
    return shapes.fixed_width(t) is not None


def make_worker(tier):
    from fcp.parser import get_fcp_from_string
    from fcp.error import Logger
    from fcp import serde
    from fcp.encoding import make_encoder, PackedEncoderContext
    from fcp.reflection import get_reflection_schema
    import fcp_dbc

    rschema = get_reflection_schema().unwrap()

    def work(chunk):
        S = Stats()
        frame_ids = itertools.count(1)  # unique inside one generated schema (a chunk holds < 2048 bindings)
        h = Hoister(prefix="T")  # generated C upper-cases enumerator names: keep them apart from type names
        decls = []
        groups = []  # (base index, combo, [(twin name, perm)], can?)
        for idx, combo in chunk:
            twins = []
            if combo and combo[0] == "NESTED":
                # the permutation happens one level down: the twins differ only in the declaration order
                # of a nested struct's fields (wrapped plainly, in an array, in an optional, two levels deep)
                _tag, wrap, inner, extra = combo
                n = len(inner)
                ifields = [("n%d" % i, IDS[i], inner[i]) for i in range(n)]
                combo = tuple(inner) + (extra,)
                can = wrap in ("plain", "arr", "deep") and all(is_fixed(t) for t in inner)
                for pi, perm in enumerate(itertools.permutations(range(n))):
                    name = "S%dp%d" % (idx, pi)
                    ist = ("st", tuple(ifields[i] for i in perm))
                    wt = {"plain": ist, "arr": Arr(ist, 2), "opt": Opt(ist), "dyn": Dyn(ist), "deep": ("st", (("m", 3, ist), ("z", 1, U(2))))}[wrap]
                    st = ("st", (("w", 4, wt), ("k", 7, extra)))
                    can = can and (shapes.fixed_width(st) or 99) <= 64
                    decls.append(struct_decl(name, st, h))
                    if can:
                        decls.append(("impl", "can", name, None, (("id", next(frame_ids) % 2048), ("device", "d%d" % idx)), ()))
                    twins.append((name, perm, st))
                groups.append((idx, combo, twins, can))
                continue
            ids = IDS
            if combo and combo[0] == "DENSE":
                # the ids 0..n-1 a hand-written schema usually has (the sparse ones above show a sort on something else)
                combo = tuple(combo[1:])
                ids = tuple(range(len(combo)))
            n = len(combo)
            fields = [("f%d" % i, ids[i], combo[i]) for i in range(n)]
            can = all(is_fixed(t) for t in combo) and sum(shapes.fixed_width(t) for t in combo) <= 64
            for pi, perm in enumerate(itertools.permutations(range(n))):
                name = "S%dp%d" % (idx, pi)
                st = ("st", tuple(fields[i] for i in perm))
                decls.append(struct_decl(name, st, h))
                if can:
                    decls.append(("impl", "can", name, None, (("id", next(frame_ids) % 2048), ("device", "d%d" % idx)), ()))
                twins.append((name, perm, st))
            groups.append((idx, combo, twins, can))
        decls = h.decls + decls
        text = print_schema(decls)
        env = refcodec.Env(decls)
        fcp = get_fcp_from_string(text, Logger({})).unwrap()
        inp0 = {"text_sha": common.sha(text)[:12]}

        def snippet(idx):
            return print_schema(h.decls + [d for d in decls if d[0] in ("struct", "impl") and (d[1].startswith("S%dp" % idx) if d[0] == "struct" else d[2].startswith("S%dp" % idx))])

        # ---------------- Python codec, packed layout, DBC
        try:
            dbc_res = {r["bus"]: dbcread.read(str(r["contents"])) for r in fcp_dbc.Generator().generate(fcp, {"output": "/nonexistent"})}
            dbc_err = None
        except Exception as e:  # noqa
            dbc_res, dbc_err = None, "%s: %s" % (type(e).__name__, str(e)[:200])
        impls = {i.name: i for i in fcp.get_matching_impls("can")}
        for idx, combo, twins, can in groups:
            S.count("states")
            S.add("nontrivial", combo)
            cc = ",".join(class_skeleton(t) for t in combo)
            base_name, _p, base_st = twins[0]
            vals = shapes.struct_values(base_st, limit=32)
            ref_bytes = {}
            for name, perm, st in twins:
                S.count("transitions")
                inp = dict(inp0, text=snippet(idx), struct=name, sorted_twin=base_name, permutation=list(perm))
                for k, v in enumerate(vals):
                    S.count("executions")
                    try:
                        enc = bytes(serde.encode(fcp, name, v))
                        dec = serde.decode(fcp, name, bytearray(enc))
                    except Exception as e:  # noqa
                        S.violation("C15.python", "C15.python/exception:%s/%s" % (type(e).__name__, cc), dict(inp, value=v), expected="bytes", actual=str(e)[:200])
                        break
                    if name == base_name:
                        ref_bytes[k] = (enc, dec)
                    elif enc != ref_bytes[k][0] or not refcodec.same(_strip_min(dec), _strip_min(ref_bytes[k][1])):
                        S.add("outcomes", "py-differs")
                        S.violation("C15.python", "C15.python/bytes-depend-on-declaration-order/%s" % cc, dict(inp, value=v), expected=ref_bytes[k][0], actual=enc)
                        break
                else:
                    S.add("outcomes", "py-same")
                if can:
                    for unroll in (False, True):
                        S.count("executions")
                        lay = [(x.name, x.bitstart, x.bitlength) for x in make_encoder("packed", fcp, PackedEncoderContext().with_unroll_arrays(unroll)).generate(impls[name])]
                        if name == base_name:
                            ref_bytes["lay%s" % unroll] = lay
                        elif lay != ref_bytes["lay%s" % unroll]:
                            S.violation("C15.layout", "C15.layout/layout-depends-on-declaration-order/%s" % cc, inp, expected=ref_bytes["lay%s" % unroll], actual=lay)
                    S.count("executions")
                    if dbc_res is None:
                        if name == base_name:
                            S.violation("C15.dbc", "C15.dbc/generation-failed", inp, expected="DBC", actual=dbc_err)
                    else:
                        msg = [m for m in dbc_res["default"]["messages"].values() if m["name"] == name]
                        sig = sorted((s["name"], s["start"], s["length"], s["byte_order"], s["signed"], s["valtype"], s["unit"]) for s in msg[0]["signals"].values()) if msg else None
                        key = (msg[0]["length"], sig) if msg else None
                        if name == base_name:
                            ref_bytes["dbc"] = key
                        elif key != ref_bytes["dbc"]:
                            S.violation("C15.dbc", "C15.dbc/description-depends-on-declaration-order/%s" % cc, inp, expected=ref_bytes["dbc"], actual=key)
        # ---------------- generated C (fixed-size groups)
        work_dir = tempfile.mkdtemp(prefix="fcpmc-c15-")
        try:
            cgroups = [g for g in groups if g[3]]
            if cgroups:
                try:
                    files = cbuild.generate_c(fcp, work_dir)
                except Exception as e:  # noqa
                    files = None
                    S.violation("C15.c", "C15.c/generation-failed:%s" % type(e).__name__, dict(inp0, text=text[:3000]), expected="C sources", actual=str(e)[:200])
                for idx, combo, twins, can in cgroups if files else []:
                    cc = ",".join(class_skeleton(t) for t in combo)
                    hname, cname = "d%d_can.h" % idx, "d%d_can.c" % idx
                    info = cbuild.parse_header(files[hname])
                    base_st = twins[0][2]
                    vals = [v for v in shapes.struct_values(base_st, special_floats=False, limit=16) if not any(isinstance(x, float) and str(x) == "-0.0" for x in _flat(v))]
                    table = {}
                    for name, perm, st in twins:
                        rows = []
                        for v in vals:
                            rows.append(_c_row(st, v))
                        table["CanMsg" + name] = rows
                    main_c = cbuild.make_codec_main(hname, info, table)
                    sub = tempfile.mkdtemp(prefix="b-", dir=work_dir)
                    for fn in files:
                        if fn.endswith(".h") or fn in (cname, "can_signal_parser.c"):
                            shutil.copy(os.path.join(work_dir, fn), os.path.join(sub, fn))
                    res = cbuild.compile_and_run(sub, [cname, "can_signal_parser.c"], main_c)
                    S.count("executions")
                    inp = dict(inp0, text=snippet(idx))
                    if "compile_error" in res or res.get("rc") != 0:
                        S.violation("C15.c", "C15.c/build-or-run-failed/%s" % cc, inp, expected="runs", actual=str(res)[:600])
                        continue
                    frames = {}
                    for ln in res["stdout"].split("\n"):
                        p = ln.split()
                        if p and p[0] == "E":
                            frames[(p[1], int(p[2]))] = (p[4], " ".join(p[5:13]))
                    for name, perm, st in twins[1:]:
                        for k in range(len(vals)):
                            S.count("executions")
                            if frames.get(("CanMsg" + name, k)) != frames.get(("CanMsg" + twins[0][0], k)):
                                S.violation("C15.c", "C15.c/frame-depends-on-declaration-order/%s" % cc, dict(inp, struct=name, permutation=list(perm), value=vals[k]), expected=frames.get(("CanMsg" + twins[0][0], k)), actual=frames.get(("CanMsg" + name, k)))
                                break
                        else:
                            S.add("outcomes", "c-same")
        finally:
            shutil.rmtree(work_dir, ignore_errors=True)
        # ---------------- generated C++ static and dynamic
        files = cppbuild.generate_cpp(fcp)
        exe, err = cppbuild.build(files)
        S.count("executions")
        if exe is None:
            S.violation("C15.cpp", "C15.cpp/cc-error/%s" % cppbuild.first_error(err), dict(inp0, text=text[:3000]), expected="compiles", actual=err[-600:])
            return S
        from fcp import serde as _s

        refl = bytes(_s.encode(rschema, "Fcp", fcp.reflection()))
        reqs, index = [], []
        for idx, combo, twins, can in groups:
            vals = shapes.struct_values(twins[0][2], json_safe=True, limit=16)
            for name, perm, st in twins:
                for k, v in enumerate(vals):
                    reqs.append({"op": "enc", "name": name, "value": to_json_value(st, v, False)})
                    index.append((idx, combo, name, perm, k, v, "static"))
                    reqs.append({"op": "dyn_enc", "name": name, "value": to_json_value(st, v, True)})
                    index.append((idx, combo, name, perm, k, v, "dynamic"))
                    canon = list(refcodec.encode(env, name, v))
                    reqs.append({"op": "dec", "name": name, "bytes": canon})
                    index.append((idx, combo, name, perm, k, v, "static-dec"))
                    reqs.append({"op": "dyn_dec", "name": name, "bytes": canon})
                    index.append((idx, combo, name, perm, k, v, "dynamic-dec"))
        answers = cppbuild.run_requests(exe, reqs, refl)
        ref = {}
        flagged = set()
        for (idx, combo, name, perm, k, v, which), a in zip(index, answers):
            S.count("executions")
            cc = ",".join(class_skeleton(t) for t in combo)
            if which.endswith("-dec"):
                st_tw = [t for t in [g for g in groups if g[0] == idx][0][2] if t[0] == name][0][2]
                try:
                    got = from_json_value(st_tw, a["value"], which.startswith("dynamic")) if "value" in a else None
                    ok = got is not None and refcodec.same(got, v)
                except ValueError:
                    got, ok = a, False
                if not ok and (idx, which) not in flagged:
                    flagged.add((idx, which))
                    S.add("outcomes", "cpp-%s-differs" % which)
                    S.violation("C15.cpp", "C15.cpp/%s-value-depends-on-declaration-order/%s" % (which, cc), dict(inp0, text=snippet(idx), struct=name, permutation=list(perm), value=v), expected=v, actual=got if got is not None else a)
                continue
            if perm == tuple(range(len(perm))):
                ref[(idx, k, which)] = a.get("bytes")
                if a.get("bytes") is None and (idx, which, "base") not in flagged:
                    flagged.add((idx, which, "base"))
                    S.violation("C15.cpp", "C15.cpp/%s-encode-failed/%s" % (which, cc), dict(inp0, text=snippet(idx), struct=name, value=v), expected="bytes", actual=a)
                continue
            if a.get("bytes") != ref.get((idx, k, which)) and (idx, which) not in flagged:
                flagged.add((idx, which))
                S.add("outcomes", "cpp-%s-differs" % which)
                S.violation("C15.cpp", "C15.cpp/%s-bytes-depend-on-declaration-order/%s" % (which, cc), dict(inp0, text=snippet(idx), struct=name, permutation=list(perm), value=v), expected=ref.get((idx, k, which)), actual=a.get("bytes", a))
            elif (idx, which) not in flagged:
                S.add("outcomes", "cpp-%s-same" % which)
        if len(S.samples) < 1:
            S.sample({"base": type_str(groups[0][2][0][2]), "twins": [t[0] for t in groups[0][2]], "permutations": [list(t[1]) for t in groups[0][2]]})
        return S

    return work


def _strip_min(v):
    return v


def _flat(v):
    if isinstance(v, dict):
        for x in v.values():
            yield from _flat(x)
    elif isinstance(v, list):
        for x in v:
            yield from _flat(x)
    else:
        yield v


def _c_row(st, v):
    """Flatten a value to the generated C struct's member names (nested a::b -> a_b, arrays a_i)."""
    row = {}

    def walk(prefix, t, val):
        if t[0] == "st":
            for f in t[1]:
                walk(prefix + [f[0]], f[2], val[f[0]])
        elif t[0] == "arr":
            for i, x in enumerate(val):
                walk(prefix[:-1] + ["%s_%d" % (prefix[-1], i)], t[1], x)
        else:
            row["_".join(prefix)] = val

    for f in st[1]:
        walk([f[0]], f[2], v[f[0]])
    return row


def run(tier):
    common.bind_repo()
    r = Run("C15", tier)
    bs = bases(tier)
    r.bounds = {"base_structs": len(bs), "pairs": len(KINDS12) ** 2, "triples": len(KINDS6) ** 3, "quads": 0 if tier == "quick" else 625, "ids": list(IDS)}
    for s in pmap(make_worker(tier), chunks(list(enumerate(bs)), 12)):
        r.stats.merge(s)
    cppbuild.trim_cache()
    r.rule = (
        "states = structs with 2-3 fields (thorough 4) over the representative kinds with fixed non-contiguous field ids; transitions = EVERY permutation of the declaration order (twin structs in one schema). "
        "Each twin is compared with its id-sorted twin in every back end: Python codec bytes and decoded values for every boundary value, PackedEncoder layout (both unroll modes), generated DBC signals, "
        "frames produced by the generated C (gcc), bytes of the generated C++ static codec and of the reflection-loaded dynamic codec. differential oracle, no model. all states non-trivial."
    )
    r.assumptions = ["CAN back ends are exercised on the fixed-size subset <= 64 bits"]
    return r.finish()


def replay(doc):
    from .cpp import replay as r

    return r(doc)
