"""C05: the generated DBC describes exactly the packed layout of every CAN binding."""

from __future__ import annotations

import itertools
import struct as _struct

from .. import common, refcodec, reflayout, shapes, dbcread
from ..schema import U, I, F32, F64, Arr, St, Hoister, print_schema, struct_decl, type_str
from ..common import Stats, Run, pmap, chunks
from .codec import class_skeleton


def en(bits, tag, lower=False):
    m = (1 << bits) - 1 if not lower else (1 << (bits - 1))
    return ("en", (("z%s" % tag, 0), ("m%s" % tag, m)))


def geometry_errors(msg):
    """Shared with C14: every signal inside 8*length and no two non-multiplexed signals intersect."""
    errs = []
    limit = 8 * msg["length"]
    occupied = {}
    for name in msg["signal_order"]:
        s = msg["signals"][name]
        bits = dbcread.signal_bits(s)
        if any(b < 0 or b >= limit for b in bits):
            errs.append("signal %s extends beyond the message (%d bits)" % (name, limit))
        if s["mux"].startswith("m") and not s["mux"].endswith("M"):
            continue
        for b in bits:
            if b in occupied:
                errs.append("signals %s and %s overlap at bit %d" % (occupied[b], name, b))
                break
            occupied[b] = name
    return errs


def fixed_alphabet(tier):
    ws = (1, 3, 8, 12, 16, 32) if tier == "quick" else (1, 2, 3, 7, 8, 9, 12, 16, 24, 31, 32, 33)
    a = [U(w) for w in ws] + [I(w) for w in ws] + [F32, en(2, "a"), en(3, "b"), en(3, "c", True), en(5, "d"), St(U(3), I(6)), Arr(U(4), 2), Arr(St(U(1), en(2, "e")), 2), St(en(3, "f"), St(F32))]
    return a


def layout_cases(tier):
    A = fixed_alphabet(tier)
    out = [(U(64),), (I(64),), (F64,), (Arr(U(8), 8),), (Arr(I(16), 4),), (Arr(F32, 2),)]
    small = [U(1), U(3), I(12), F32, en(3, "b"), St(U(3), I(6)), Arr(U(4), 2), I(8)]
    for n in (1, 2, 3, 4):
        if n == 4 and tier == "quick":
            continue
        alpha = A if n < 4 else small
        for c in itertools.product(alpha, repeat=n):
            if sum(shapes.fixed_width(t) for t in c) <= 64:
                out.append(c)
    return [("layout", {"fields": c}) for c in out]


BYTE_FIELDS = [U(8), U(16), I(16), U(32), I(32), F32]


def endian_cases(tier):
    out = []
    seqs = [(U(64),), (I(64),), (F64,)]
    for n in (1, 2, 3):
        for c in itertools.product(BYTE_FIELDS if n < 3 else BYTE_FIELDS[:4], repeat=n):
            if sum(shapes.fixed_width(t) for t in c) <= 64:
                seqs.append(c)
    for c in seqs:
        for r in range(1, len(c) + 1):
            for subset in itertools.combinations(range(len(c)), r):
                out.append(("endian", {"fields": c, "big": subset}))
    return out


def mux_cases(tier):
    """The selector sits at EVERY position of the message (first, middle, last leaf)."""
    out = []
    for sel in (U(2), U(8), en(2, "s")):
        for rest in ((U(16), I(8)), (I(12), F32), (U(8), U(8))):
            for count in (1, 2, 4):
                for selpos in (0, 1, 2):
                    fields = list(rest)
                    fields.insert(selpos, sel)
                    others = [i for i in range(3) if i != selpos]
                    for subset in ((0,), (1,), (0, 1)):
                        out.append(("mux", {"fields": tuple(fields), "mux": {"signal": selpos, "count": count, "on": tuple(others[i] for i in subset)}}))
    return out


LONG = "battery_management_cell_group_index"  # 35 characters: DBC symbols are limited to 32


def muxnames_cases(tier):
    """Multiplexing where the selector is not a short top-level name: inside a nested struct (the signal block can
    only give the bare field name), longer than a DBC symbol, or both; the selector before or after the muxed leaf."""
    out = []
    for sel_name, muxed_name in (("sid", "temp"), (LONG, "voltage"), ("sid", LONG + "_raw"), (LONG, LONG + "_value")):
        for nested in (False, True, 2):
            for sel_first in (True, False):
                for count in (1, 4):
                    out.append(("muxnames", {"sel": sel_name, "muxed": muxed_name, "nested": nested, "sel_first": sel_first, "count": count}))
    return out


def odd_option_cases(tier):
    """Option values at the edge of what the writer understands.  The statement speaks of generations that SUCCEED: each
    of these may be refused, but if a file comes out it has to describe the layout (positions, byte order, multiplexing)."""
    out = []
    # mux_count with no mux_signal on a plain field (fcp v1 wrote mux_count: 1 everywhere), alone and next to a real mux group
    out.append(("oddopts", {"fields": (U(8), U(8), U(8)), "sigs": (("f2", (("mux_count", 4),)),), "may_refuse": True}))
    out.append(("oddopts", {"fields": (U(8), U(8), U(8)), "sigs": (("f1", (("mux_signal", "f0"), ("mux_count", 2))), ("f2", (("mux_count", 1),))), "mux": {"signal": 0, "count": 2, "on": (1,)}, "may_refuse": True}))
    # endianess spellings other than "little"/"big" on a trailing flag bit and on a whole byte
    for val in ("Big", "LITTLE", "little_endian", "motorola", "intel"):
        out.append(("oddopts", {"fields": (U(8), U(1)), "sigs": (("f1", (("endianess", val),)),), "may_refuse": True}))
        out.append(("oddopts", {"fields": (U(8), U(8), U(1)), "sigs": (("f1", (("endianess", val),)), ("f2", (("endianess", val),))), "may_refuse": True}))
    # frame ids at and beyond the edges of the 11-bit identifier
    for fid in (-1, -2048, 2048, 0x1FFFFFFF, 0x20000000):
        out.append(("oddopts", {"fields": (U(8), I(12)), "sigs": (), "id": fid, "may_refuse": True}))
    return out


def array_option_cases(tier):
    """Options declared for an ARRAY field hold for every element, at every depth of a nested array."""
    out = []
    for arr in (Arr(U(8), 2), Arr(I(16), 2), Arr(Arr(U(8), 2), 2), Arr(Arr(I(16), 1), 2), Arr(Arr(Arr(U(8), 1), 2), 2)):
        for pos in (1, 2):
            fields = [U(8), U(8)]
            fields.insert(pos, arr)
            for big in ((), (pos,)):
                for mux in (None, {"signal": 0, "count": 2, "on": (pos,)}):
                    if not big and not mux:
                        continue
                    spec = {"fields": tuple(fields), "big": big, "elementwise": True}
                    if mux:
                        spec["mux"] = mux
                    out.append(("arropts", spec))
    return out


def unit_cases(tier):
    out = []
    inner = ("st", (("p", 0, U(8), "degC", None), ("q", 1, I(8), None, None)))
    for units in itertools.product((None, "m/s", "%"), repeat=2):
        out.append(("units", {"fields": (U(8), inner, Arr(U(8), 2)), "units": {0: units[0], 2: units[1]}}))
    return out


def bus_cases(tier):
    out = []
    buses = (None, "b1", "b2")
    ids = (0, 1, 100, 2047)
    for n in (1, 2, 3):
        for bs in itertools.product(buses, repeat=n):
            for rename in (False, True):
                out.append(("buses", {"n": n, "buses": bs, "ids": ids[:n] if not rename else ids[4 - n :], "rename": rename}))
    return out


def twobind_cases(tier):
    """Two (three) bindings of ONE struct whose signal blocks differ: what is computed for one binding
    must not leak into the next (the generator lays all of them out with one encoder)."""
    out = []
    optsets = [(), (0,), (1,), (0, 1)]
    for a, b in itertools.product(optsets, repeat=2):
        for muxb in (None, {"signal": 0, "count": 2, "on": (1,)}):
            out.append(("twobind", {"fields": (U(16), U(16), I(8)), "bigs": (a, b), "mux_second": muxb}))
    return out


def build_case(kind, spec, idx, h):
    """-> (decl list, [binding descriptors]) ; binding = dict(struct, name, id, bus, options)"""
    decls = []
    bindings = []
    if kind == "buses":
        for k in range(spec["n"]):
            sname = "S%d_%d" % (idx, k)
            decls.append(("struct", sname, (("a", 0, U(8), None, None), ("b", 1, I(12 + k), None, None))))
            fields = [("id", spec["ids"][k])]
            if spec["buses"][k] is not None:
                fields.append(("bus", spec["buses"][k]))
            fields.append(("device", "ecu%d" % (k % 2)))
            name = ("R%d_%d" % (idx, k)) if spec["rename"] else None
            decls.append(("impl", "can", sname, name, tuple(fields), ()))
            bindings.append({"struct": sname, "name": name or sname, "id": spec["ids"][k], "bus": spec["buses"][k] or "default", "big": set(), "mux": None})
        return decls, bindings
    if kind == "muxnames":
        sname = "S%d" % idx
        pair = [(spec["sel"], U(8)), (spec["muxed"], I(16))]
        if not spec["sel_first"]:
            pair.reverse()
        inner = tuple((n, i, t, None, None) for i, (n, t) in enumerate(pair))
        if spec["nested"] == 2:
            # two levels down, and the middle struct has a field named like the selector: the selector of a muxed
            # field is its SIBLING (inner::ch::<sel>), not the same-named field further out (inner::<sel>)
            decls.append(("struct", "N%d" % idx, inner))
            decls.append(("struct", "M%d" % idx, ((spec["sel"], 0, U(8), None, None), ("ch", 1, ("ref", "N%d" % idx), None, None))))
            decls.append(("struct", sname, (("counter", 0, U(8), None, None), ("inner", 1, ("ref", "M%d" % idx), None, None))))
            pre = "inner::ch::"
        elif spec["nested"]:
            decls.append(("struct", "N%d" % idx, inner))
            decls.append(("struct", sname, (("counter", 0, U(8), None, None), ("inner", 1, ("ref", "N%d" % idx), None, None))))
            pre = "inner::"
        else:
            decls.append(("struct", sname, inner + (("counter", 2, U(8), None, None),)))
            pre = ""
        decls.append(("impl", "can", sname, None, (("id", idx % 2048),), ((spec["muxed"], (("mux_signal", spec["sel"]), ("mux_count", spec["count"]))),)))
        bindings.append({"struct": sname, "name": sname, "id": idx % 2048, "bus": "default", "big": set(), "mux": {"leaf": pre + spec["sel"], "on_leaves": [pre + spec["muxed"]], "count": spec["count"]}})
        return decls, bindings
    if kind == "twobind":
        sname = "S%d" % idx
        decls.append(("struct", sname, tuple(("f%d" % i, i, t, None, None) for i, t in enumerate(spec["fields"]))))
        for k, big in enumerate(spec["bigs"]):
            sigs = [("f%d" % i, (("endianess", "big"),)) for i in big]
            mux = spec["mux_second"] if k == 1 else None
            if mux:
                sigs = [sg for sg in sigs if sg[0] not in ["f%d" % i for i in mux["on"]]] + [("f%d" % i, (("mux_signal", "f%d" % mux["signal"]), ("mux_count", mux["count"])) + ((("endianess", "big"),) if i in big else ())) for i in mux["on"]]
            name = sname if k == 0 else "T%d" % idx
            decls.append(("impl", "can", sname, None if k == 0 else name, (("id", (2 * idx + k) % 2048),), tuple(sigs)))
            bindings.append({"struct": sname, "name": name, "id": (2 * idx + k) % 2048, "bus": "default", "big": {"f%d" % i for i in big}, "mux": mux})
        return decls, bindings
    if kind == "oddopts":
        sname = "S%d" % idx
        decls.append(("struct", sname, tuple(("f%d" % i, i, t, None, None) for i, t in enumerate(spec["fields"]))))
        fid = spec.get("id", idx % 2048)
        decls.append(("impl", "can", sname, None, (("id", fid),), tuple(spec["sigs"])))
        bindings.append({"struct": sname, "name": sname, "id": fid, "bus": "default", "big": set(), "mux": spec.get("mux")})
        return decls, bindings
    sname = "S%d" % idx
    fields = []
    for i, t in enumerate(spec["fields"]):
        if t[0] == "st" and any(len(f) > 3 for f in t[1]):
            # struct with explicit units: hoist by hand
            nn = "U%d_%d" % (idx, i)
            decls.append(("struct", nn, t[1]))
            tt = ("ref", nn)
        else:
            tt = h.conv(t)
        unit = (spec.get("units") or {}).get(i)
        fields.append(("f%d" % i, i, tt, unit, None))
    decls.append(("struct", sname, tuple(fields)))
    sigs = []
    for i in spec.get("big", ()):
        sigs.append(("f%d" % i, (("endianess", "big"),)))
    mux = spec.get("mux")
    if mux:
        for i in mux["on"]:
            sigs.append(("f%d" % i, (("mux_signal", "f%d" % mux["signal"]), ("mux_count", mux["count"]))))
    merged = {}
    for fname, opts in sigs:  # one signal block per field
        merged[fname] = merged.get(fname, ()) + tuple(opts)
    sigs = list(merged.items())
    decls.append(("impl", "can", sname, None, (("id", idx % 2048),), tuple(sigs)))
    bindings.append({"struct": sname, "name": sname, "id": idx % 2048, "bus": "default", "big": {"f%d" % i for i in spec.get("big", ())}, "mux": mux, "elementwise": bool(spec.get("elementwise"))})
    return decls, bindings


def leaf_values(leaf_type, env):
    k = leaf_type[0]
    if k == "ref":
        return sorted({v for _, v in env.enums[leaf_type[1]]})
    return shapes.values(leaf_type)


def word_of(t, v, env):
    k = t[0]
    if k == "f32":
        return int.from_bytes(_struct.pack("<f", v), "little")
    if k == "f64":
        return int.from_bytes(_struct.pack("<d", v), "little")
    w = reflayout.wire_width(env, t)
    return v & ((1 << w) - 1)


def pack_frame(leaves, values, big, env, nbytes):
    acc = 0
    for leaf, v in zip(leaves, values):
        w = word_of(leaf.type, v, env)
        if leaf.field in big:
            nb = leaf.width // 8
            w = int.from_bytes(w.to_bytes(nb, "little"), "big")
        acc |= w << leaf.start
    return acc.to_bytes(8, "little")[:nbytes]


def value_rows(leaves, env, limit=48):
    per = [leaf_values(l.type, env) for l in leaves]
    total = 1
    for p in per:
        total *= len(p)
    if total <= limit:
        return [list(c) for c in itertools.product(*per)]
    rows = [[p[0] for p in per], [p[-1] for p in per]]
    for i, p in enumerate(per):
        for v in p[1:]:
            r = [q[0] for q in per]
            r[i] = v
            rows.append(r)
    return rows


def feature_class(kind, spec):
    if kind in ("buses", "twobind"):
        return kind
    if kind == "oddopts":
        return "oddopts:" + ("id" if "id" in spec else ",".join(sorted({k for _n, kv in spec["sigs"] for k, _v in kv})))
    if kind == "muxnames":
        return "muxnames:%s%s" % ("nested2" if spec["nested"] == 2 else "nested" if spec["nested"] else "flat", ",long" if len(spec["sel"]) > 32 or len(spec["muxed"]) > 32 else "")
    f = []
    for t in spec["fields"]:
        f.append(class_skeleton(t))
    return kind + ":" + ",".join(sorted(set(f)))


def make_worker(tier):
    from fcp.parser import get_fcp_from_string
    from fcp.error import Logger
    import fcp_dbc
    import cantools

    def work(chunk):
        S = Stats()
        for idx, (kind, spec) in chunk:
            S.count("states")
            S.count("transitions")
            h = Hoister(prefix="H%d" % idx)
            d2, bindings = build_case(kind, spec, idx, h)
            decls = h.decls + d2
            text = print_schema(decls)
            env = refcodec.Env(decls)
            inp = {"text": text, "kind": kind}
            fc = feature_class(kind, spec)
            fcp = get_fcp_from_string(text, Logger({})).unwrap()
            S.count("executions")
            try:
                results = fcp_dbc.Generator().generate(fcp, {"output": "/nonexistent-out"})
            except Exception as e:  # noqa
                if spec.get("may_refuse"):
                    S.add("outcomes", "refused:" + kind)
                    continue
                S.add("outcomes", "gen-exc")
                S.violation("C05.generate", "C05.generate/exception:%s/%s" % (type(e).__name__, fc), inp, expected="DBC files", actual="%s: %s" % (type(e).__name__, str(e)[:200]))
                continue
            files = {r["bus"]: str(r["contents"]) for r in results}
            by_bus = {}
            for b in bindings:
                by_bus.setdefault(b["bus"], []).append(b)
            if set(files) != set(by_bus):
                S.violation("C05.buses", "C05.buses/bus-file-set-differs", inp, expected=sorted(by_bus), actual=sorted(files))
                continue
            for bus, text_dbc in files.items():
                db = dbcread.read(text_dbc)
                want_ids = sorted(b["id"] for b in by_bus[bus])
                if sorted(m["id"] for m in db["messages"].values()) != want_ids:
                    S.violation("C05.buses", "C05.buses/messages-of-bus-differ", dict(inp, bus=bus), expected=want_ids, actual=sorted(db["messages"]))
                    continue
                try:
                    cdb = cantools.database.load_string(text_dbc, database_format="dbc")
                except Exception as e:  # noqa
                    S.violation("C05.cantools", "C05.cantools/dbc-not-loadable/%s" % fc, dict(inp, dbc=text_dbc[-1500:]), expected="loadable DBC", actual="%s: %s" % (type(e).__name__, str(e)[:200]))
                    continue
                for b in by_bus[bus]:
                    msg = [m for m in db["messages"].values() if m["id"] == b["id"]][0]
                    leaves = reflayout.layout(env, b["struct"], True)
                    if len(leaves) >= 2:
                        S.add("nontrivial", (kind, idx, b["name"]))
                    bits = leaves[-1].start + leaves[-1].width
                    nbytes = (bits + 7) // 8
                    binp = dict(inp, bus=bus, binding=b["name"])
                    errs = []
                    if msg["name"] != b["name"]:
                        errs.append("message name %s != %s" % (msg["name"], b["name"]))
                    if msg["length"] != nbytes:
                        errs.append("length %d != ceil(%d/8)=%d" % (msg["length"], bits, nbytes))
                    if sorted(msg["signals"]) != sorted(l.name.replace("::", "_") for l in leaves):
                        errs.append("signal names %s != %s" % (sorted(msg["signals"]), sorted(l.name.replace("::", "_") for l in leaves)))
                    else:
                        mux = b["mux"]
                        if mux and "leaf" not in mux:
                            mux = b["mux"] = dict(mux, leaf="f%d" % mux["signal"], on_leaves=["f%d" % i for i in mux["on"]])
                        units = unit_map(decls, b["struct"])
                        for l in leaves:
                            s = msg["signals"][l.name.replace("::", "_")]
                            big = l.field in b["big"] and (l.name == l.field or b.get("elementwise"))
                            exp = {
                                "start": l.start + 7 if big else l.start,
                                "length": l.width,
                                "byte_order": "big" if big else "little",
                                "signed": l.type[0] == "i",
                                "valtype": {"f32": 1, "f64": 2}.get(l.type[0], 0),
                                "unit": units.get(l.name, "") or "",
                            }
                            for k, v in exp.items():
                                if s[k] != v:
                                    errs.append("%s.%s: %r != %r" % (s["name"], k, s[k], v))
                            if s["scale"] != 1 or s["offset"] != 0:
                                errs.append("%s: scale/offset (%r,%r)" % (s["name"], s["scale"], s["offset"]))
                            if mux:
                                is_muxer = l.name == mux["leaf"]
                                is_muxed = l.name in mux["on_leaves"] or (bool(b.get("elementwise")) and l.field in mux["on_leaves"])
                                if is_muxer != (s["mux"] == "M"):
                                    errs.append("%s: multiplexer flag %r" % (s["name"], s["mux"]))
                                if is_muxed:
                                    ids = mux_ids(s)
                                    if ids != set(range(mux["count"])) or (s["mul_val"] and s["mul_val"][0] != mux["leaf"].replace("::", "_")):
                                        errs.append("%s: multiplexed ids %s != 0..%d" % (s["name"], sorted(ids), mux["count"] - 1))
                                elif not is_muxer and s["mux"]:
                                    errs.append("%s: unexpected mux indicator %r" % (s["name"], s["mux"]))
                            elif s["mux"]:
                                errs.append("%s: unexpected mux indicator %r" % (s["name"], s["mux"]))
                    errs += geometry_errors(msg)
                    if errs:
                        S.add("outcomes", "struct-differs")
                        key = errs[0].split(":")[0].split(".")[-1] if "." in errs[0].split(":")[0] else errs[0].split()[0]
                        S.violation("C05.structure", "C05.structure/%s/%s" % (key, fc), dict(binp, dbc_message=msg), expected="message described per the packed layout", actual=errs[:6])
                        continue
                    # behavioural: reference-packed frames decode through cantools to the original values
                    cm = cdb.get_message_by_frame_id(b["id"])
                    rows = value_rows(leaves, env)
                    for row in rows:
                        if b["mux"]:
                            sel = row[[x.name for x in leaves].index(b["mux"]["leaf"])]
                            if sel >= b["mux"]["count"]:
                                continue  # no multiplexed group is defined for this selector value
                        S.count("executions")
                        frame = pack_frame(leaves, row, b["big"], env, nbytes)
                        try:
                            got = cm.decode(frame, decode_choices=False, scaling=False)
                        except Exception as e:  # noqa
                            S.violation("C05.decode", "C05.decode/exception:%s/%s" % (type(e).__name__, fc), dict(binp, frame=frame), expected="values", actual=str(e)[:200])
                            break
                        want = {}
                        for l, v in zip(leaves, row):
                            n = l.name.replace("::", "_")
                            if b["mux"] and l.name in b["mux"]["on_leaves"]:
                                sel = row[[x.name for x in leaves].index(b["mux"]["leaf"])]
                                if sel >= b["mux"]["count"]:
                                    continue
                            want[n] = v
                        ok = set(got) == set(want) and all(refcodec.same(_norm(got[n], want[n]), want[n]) for n in want)
                        if ok:
                            S.add("outcomes", "ok:%d" % nbytes)
                        else:
                            S.add("outcomes", "decode-differs")
                            S.violation("C05.decode", "C05.decode/value-differs/%s" % fc, dict(binp, frame=frame), expected=want, actual={k: got[k] for k in got})
                            break
            if len(S.samples) < 2:
                S.sample({"kind": kind, "text": text, "dbc_tail": list(files.values())[0][-400:]})
        return S

    return work


def _norm(got, want):
    if isinstance(want, float) and isinstance(got, int):
        return got  # stays int: mismatch is reported
    if isinstance(want, int) and isinstance(got, float) and got == int(got):
        return got
    return got


def mux_ids(s):
    ids = set()
    if s["mul_val"]:
        for part in s["mul_val"][1].split(","):
            a, b = part.strip().split("-")
            ids |= set(range(int(a), int(b) + 1))
    elif s["mux"].startswith("m"):
        ids.add(int(s["mux"][1:].rstrip("M")))
    return ids


def unit_map(decls, sname):
    """leaf name ('a::b', 'arr_0') -> unit, following the generator's flattening."""
    structs = {d[1]: d for d in decls if d[0] == "struct"}
    out = {}

    def walk(name, prefix):
        for f in sorted(structs[name][2], key=lambda f: f[1]):
            field(f[0], f[2], f[3] if len(f) > 3 else None, prefix)

    def field(fname, t, unit, prefix):
        if t[0] == "ref" and t[1] in structs:
            walk(t[1], prefix + fname + "::")
        elif t[0] == "arr":
            for i in range(t[2]):
                field("%s_%d" % (fname, i), t[1], unit, prefix)
        else:
            out[prefix + fname] = unit

    walk(sname, "")
    return out


def run(tier):
    common.bind_repo()
    r = Run("C05", tier)
    cases = layout_cases(tier) + endian_cases(tier) + mux_cases(tier) + unit_cases(tier) + bus_cases(tier) + twobind_cases(tier) + muxnames_cases(tier) + odd_option_cases(tier) + array_option_cases(tier)
    counts = {}
    for k, _ in cases:
        counts[k] = counts.get(k, 0) + 1
    r.bounds = {"schemas_per_family": counts}
    for s in pmap(make_worker(tier), chunks(list(enumerate(cases)), 20)):
        r.stats.merge(s)
    r.rule = (
        "states = CAN schemas: every 1..3-field (thorough: 4 over a reduced alphabet) fixed-size message <= 64 bits over {u/i widths, f32, f64, enums (both edges of a width), nested structs, arrays of scalars/structs}; every subset of byte-aligned "
        "fields marked big-endian; mux on every subset of the payload fields with counts 1,2,4; mux with the selector inside a nested struct and/or names beyond the 32-character DBC symbol limit; options (byte order, mux) declared for an array field, incl. arrays of arrays, holding for every element; units at every nesting level; 1..3 bindings over buses {default,b1,b2}, renamed or not, ids {0,1,100,2047}. "
        "Each is generated by the real fcp_dbc generator; oracle (1) own DBC reader vs reference layout (id, name, length, per-leaf start/width/sign/float/byte order/unit/mux) + geometry; "
        "(2) cantools decodes every reference-packed boundary frame to the original values. non-trivial = messages with >= 2 leaves."
    )
    r.assumptions = ["cantools is the independent DBC decoder", "reference layout fcpmc/reflayout.py", "big-endian only on byte-aligned fields of 8/16/32/64 bits"]
    return r.finish()


def replay(doc):
    common.bind_repo()
    from fcp.parser import get_fcp_from_string
    from fcp.error import Logger
    import fcp_dbc

    fcp = get_fcp_from_string(doc["input"]["text"], Logger({})).unwrap()
    print(doc["input"]["text"])
    try:
        for r in fcp_dbc.Generator().generate(fcp, {"output": "/nonexistent-out"}):
            print("---", r["bus"])
            print("\n".join(l for l in str(r["contents"]).split("\n") if l.startswith(("BO_", " SG_", "SIG_VALTYPE_", "SG_MUL_VAL_"))))
    except Exception as e:  # noqa
        print("exception", type(e).__name__, e)
    print("expected:", doc["expected"], "\nactual:", doc["actual"])
    return 0
