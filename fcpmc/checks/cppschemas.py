"""C03 part (b): schema-level programs for the C++ generator (services, several protocols,
renamed bindings, two bindings of one struct, nested structs, enums)."""

from __future__ import annotations

import itertools

from .. import common, refcodec, cppbuild
from ..schema import U, I, print_schema
from ..common import Stats, pmap

A = ("struct", "A", (("x", 0, U(8), None, None),))
B = ("struct", "B", (("y", 0, I(16), None, None), ("a", 1, ("ref", "A"), None, None)))
E = ("enum", "E", (("p", 0), ("q", 5)))
C = ("struct", "C", (("e", 0, ("ref", "E"), None, None), ("k", 1, U(3), None, None)))

BINDINGS = {
    "none": [],
    "can": [("impl", "can", "A", None, (("id", 1), ("bus", "bus1")), ())],
    "can-renamed": [("impl", "can", "A", "AA", (("id", 1), ("bus", "bus1")), ())],
    "two-protocols": [("impl", "can", "A", None, (("id", 1), ("bus", "bus1")), ()), ("impl", "uart", "B", None, (("baud", 9600),), ())],
    "two-bindings-one-struct": [("impl", "can", "A", None, (("id", 1), ("bus", "bus1")), ()), ("impl", "can", "A", "A2", (("id", 2), ("bus", "bus1")), ())],
    "outer-bound-inner-not": [("impl", "uart", "B", None, (("baud", 1),), ())],
    "big-endian": [("impl", "can", "B", None, (("id", 3), ("endianess", "big")), ())],
    # CAN bindings that name no frame id, or name it with something that is not a number: accepted, so every header compiles
    "can-without-id": [("impl", "can", "A", None, (("bus", "bus1"),), ()), ("impl", "can", "B", None, (("id", 0), ("bus", "bus1")), ())],
    "can-id-not-a-number": [("impl", "can", "A", None, (("id", ("id", "abc")), ("bus", "bus1")), ())],
    # a second binding of the DEFAULT protocol under a name of its own, declared after the struct (whose own default
    # binding therefore comes first): "a struct bound several times is only defined once", by its first binding
    "second-default-binding": [("impl", "default", "B", "BNet", (("endianess", "big"),), ()), ("impl", "default", "A", "ANet", (("note", "x"),), ())],
}
SERVICES = {
    "none": [],
    "A-A": [("service", "Svc", 0, (("m", 0, "A", "A"),))],
    "A-B": [("service", "Svc", 1, (("m", 0, "A", "B"),))],
    "B-A": [("service", "Svc", 0, (("m", 3, "B", "A"),))],
    "A-B+B-A": [("service", "Svc", 0, (("m", 0, "A", "B"), ("n", 1, "B", "A")))],
    "A-A+A-B": [("service", "Svc", 2, (("m", 0, "A", "A"), ("n", 1, "A", "B")))],
    # boundary ids of the 8-bit rpc id enums (the generator pads them with a 'Size = 255' sentinel)
    "ids-255": [("service", "Svc", 255, (("m", 255, "A", "B"), ("n", 0, "B", "A")))],
    "ids-254": [("service", "Svc", 254, (("m", 254, "A", "A"),))],
    "two-services": [("service", "Svc", 0, (("m", 0, "A", "B"),)), ("service", "Tvc", 1, (("k", 0, "B", "B"),))],
}


def _st(name, *fields):
    return ("struct", name, tuple((n, i, t, None, None) for i, (n, t) in enumerate(fields)))


# names that meet the generator's own derived names: <Field>Type aliases, Get<Field>/View<Field> accessors, the
# locals and parameters of the generated functions, the rpc wrapper types built from service and payload names
NAMING = [
    ("naming:alias-hides-enum", [("enum", "SpeedType", (("Slow", 0), ("Fast", 1))), _st("Car", ("speed", U(16)), ("kind", ("ref", "SpeedType")), ("wheels", U(8)))], {"Car": {"speed": 513, "kind": 1, "wheels": 4}}),
    ("naming:alias-hides-struct", [_st("StateType", ("v", U(2))), _st("Mach", ("state", U(8)), ("prev", ("ref", "StateType")), ("z", U(8)))], {"StateType": {"v": 2}, "Mach": {"state": 1, "prev": {"v": 2}, "z": 255}}),
    ("naming:alias-declared-after-its-use", [("enum", "StateType", (("Idle", 0), ("Run", 1), ("Fault", 2))), ("struct", "Mach", (("prev", 1, ("ref", "StateType"), None, None), ("state", 0, U(8), None, None), ("z", 2, U(8), None, None)))], {"Mach": {"state": 1, "prev": 2, "z": 255}}),
    ("naming:service-camel-case", [_st("Req", ("id", U(8))), _st("Rep", ("value", U(16))), ("service", "MotorControl", 1, (("Get", 0, "Req", "Rep"),))], {"Req": {"id": 7}, "Rep": {"value": 515}}),
    ("naming:service-snake-case", [_st("Req", ("id", U(8))), _st("Rep", ("value", U(16))), ("service", "motor_control", 1, (("get_it", 0, "Req", "Rep"),))], {"Req": {"id": 7}, "Rep": {"value": 515}}),
    ("naming:method-named-like-a-payload-struct", [_st("Empty", ("pad", U(1))), _st("Status", ("code", U(8))), ("service", "Sys", 1, (("Status", 0, "Empty", "Status"), ("Reset", 1, "Empty", "Status")))], {"Empty": {"pad": 1}, "Status": {"code": 7}}),
    ("naming:payload-camel-case", [_st("SensorReq", ("id", U(8))), _st("sensor_rep", ("value", U(16))), ("service", "Sensor", 1, (("Get", 0, "SensorReq", "sensor_rep"),))], {"SensorReq": {"id": 7}, "sensor_rep": {"value": 515}}),
    ("naming:field-named-buffer", [_st("Frame", ("length", U(8)), ("buffer", ("arr", U(8), 4)))], {"Frame": {"length": 4, "buffer": [1, 2, 3, 4]}}),
    ("naming:field-named-endianess", [_st("Config", ("endianess", U(1)), ("gain", I(7)))], {"Config": {"endianess": 1, "gain": -3}}),
    ("naming:field-named-like-its-struct", [_st("Speed", ("Speed", U(16)), ("valid", U(1)))], {"Speed": {"Speed": 513, "valid": 1}}),
    ("naming:field-named-like-a-local", [_st("Loc", ("j", U(8)), ("fcp_decoded", U(8)), ("rhs", U(8)), ("begin", U(8)), ("end", U(8)), ("data", U(8)))], {"Loc": {"j": 1, "fcp_decoded": 2, "rhs": 3, "begin": 4, "end": 5, "data": 6}}),
    ("naming:type-named-like-an-accessor", [("enum", "GetMode", (("Off", 0), ("Fast", 2))), _st("ViewLimit", ("lo", U(4)), ("hi", U(4))), _st("Ctl", ("mode", ("ref", "GetMode")), ("limit", ("ref", "ViewLimit")), ("level", U(5)))], {"ViewLimit": {"lo": 1, "hi": 2}, "Ctl": {"mode": 2, "limit": {"lo": 3, "hi": 4}, "level": 17}}),
    ("naming:type-named-like-an-accessor-declared-after", [("enum", "GetMode", (("Off", 0), ("Fast", 2))), ("struct", "Ctl", (("level", 2, U(5), None, None), ("mode", 0, ("ref", "GetMode"), None, None)))], {"Ctl": {"mode": 2, "level": 17}}),
    ("naming:field-named-like-another-fields-alias", [("struct", "Sel", (("ModeType", 1, U(16), None, None), ("Mode", 0, U(8), None, None)))], {"Sel": {"Mode": 1, "ModeType": 515}}),
    ("naming:field-named-like-another-fields-alias-2", [_st("Sel", ("Mode", U(8)), ("ModeType", U(16)))], {"Sel": {"Mode": 1, "ModeType": 515}}),
    ("naming:fields-named-underscore-digit", [_st("Pair", ("_0", I(16)), ("_1", U(8)), ("_", U(3)))], {"Pair": {"_0": -2, "_1": 7, "_": 5}}),
    ("naming:struct-named-like-its-own-fields-alias", [_st("SensorType", ("sensor", U(8)), ("gain", U(4)))], {"SensorType": {"sensor": 200, "gain": 9}}),
    ("naming:struct-named-like-its-own-accessor", [_st("GetStatus", ("status", U(8)))], {"GetStatus": {"status": 7}}),
    ("naming:enumerator-named-like-its-enum", [("enum", "Mode", (("Off", 0), ("Mode", 1))), _st("Cfg", ("m", ("ref", "Mode")))], {"Cfg": {"m": 1}}),
    ("naming:getter-equals-another-fields-alias", [_st("Command", ("get_config", U(1)), ("config_type", U(7)))], {"Command": {"get_config": 1, "config_type": 66}}),
    ("naming:view-accessor-equals-another-fields-alias", [_st("Camera", ("view", U(8)), ("type", U(16)))], {"Camera": {"view": 7, "type": 515}}),
    ("naming:fields-equal-in-pascal-case", [_st("Wheel", ("speed", U(16)), ("Speed", I(16)))], {"Wheel": {"speed": 1000, "Speed": -2}}),
]


def programs(tier):
    out = []
    for (bl, bd), (sl, sd), enums in itertools.product(BINDINGS.items(), SERVICES.items(), (False, True)):
        if tier == "quick" and not (bl in ("none", "two-protocols", "outer-bound-inner-not") or sl in ("none", "A-B+B-A", "ids-255")):
            continue
        decls = [A, B] + ([E, C] if enums else []) + bd + sd
        out.append(("%s|%s|%s" % (bl, sl, "enums" if enums else "noenums"), decls))
    # nested struct declared before use, three levels; same field name at several levels
    out.append(("nested-3", [A, B, ("struct", "D", (("b", 0, ("ref", "B"), None, None), ("a", 1, ("ref", "A"), None, None), ("x", 2, U(1), None, None)))]))
    out += NAMING
    # widths beyond the 64 bits every carrier type ends at: the front end may refuse them (it does since fix 63);
    # if it accepts them the generated header has to compile and carry the value like any other schema
    out.append(("optional:width-65", [_st("Wide", ("big", U(65)), ("small", I(8)))], {"Wide": {"big": 5, "small": -3}}))
    out.append(("optional:width-99", [_st("Wide", ("pad", U(3)), ("big", I(99)))], {"Wide": {"pad": 5, "big": -2}}))
    return out


def extra_cpp(decls):
    svcs = [d for d in decls if d[0] == "service"]
    if not svcs:
        return ""
    L = ["namespace {", "struct FcpmcBus : fcp::IBusProxy {", "  void Send(const std::vector<std::uint8_t>&, std::string) override {}", "  std::optional<std::pair<std::vector<std::uint8_t>, std::string>> Recv() override { return std::nullopt; }", "};"]
    for s in svcs:
        L.append("struct FcpmcImpl%s : fcp::I%sImpl {" % (s[1], s[1]))
        for m in s[3]:
            L.append("  fcp::%s %s(const fcp::%s&) override { return fcp::%s{}; }" % (m[3], m[0], m[2], m[3]))
        L.append("};")
    L.append("}")
    L.append("void fcpmc_instantiate() {")
    L.append("  FcpmcBus bus; fcp::StaticSchema schema;")
    for s in svcs:
        L.append("  FcpmcImpl%s impl%s; fcp::%sBroker<FcpmcImpl%s> broker%s(bus, schema, impl%s, %d); broker%s.Step();" % (s[1], s[1], s[1], s[1], s[1], s[1], s[2], s[1]))
        L.append("  fcp::%sProxy proxy%s(bus, schema);" % (s[1], s[1]))
        for m in s[3]:
            L.append("  proxy%s.%s(fcp::%s{});" % (s[1], m[0], m[2]))
        L.append("  proxy%s.Step();" % s[1])
    L.append("}")
    return "\n".join(L) + "\n"


def struct_value(name, values=None):
    if values and name in values:
        return values[name]
    if name == "A":
        return {"x": 200}
    if name == "B":
        return {"y": -2, "a": {"x": 7}}
    if name == "C":
        return {"e": 5, "k": 6}
    if name == "D":
        return {"b": struct_value("B"), "a": {"x": 1}, "x": 1}
    raise KeyError(name)


def run_one(item):
    from fcp.parser import get_fcp_from_string
    from fcp.error import Logger

    label, decls = item[0], item[1]
    values = item[2] if len(item) > 2 else None
    S = Stats()
    S.count("states")
    S.count("transitions")
    S.add("nontrivial", label)
    text = print_schema(decls)
    inp = {"text": text, "program": label}
    parsed = get_fcp_from_string(text, Logger({}))
    if parsed.is_err() and label.startswith("optional:"):
        S.add("outcomes", "refused-by-front-end:" + label)
        return S
    fcp = parsed.unwrap()
    S.count("executions")
    try:
        files = cppbuild.generate_cpp(fcp)
        # generating again from the SAME parsed object gives the same headers (whatever the first run left behind in it)
        S.count("executions")
        again = cppbuild.generate_cpp(fcp)
        if {k: cppbuild.mask(v) for k, v in again.items()} != {k: cppbuild.mask(v) for k, v in files.items()}:
            changed = sorted(k for k in set(files) | set(again) if cppbuild.mask(files.get(k, "")) != cppbuild.mask(again.get(k, "")))
            S.add("outcomes", "second-generation-differs")
            S.violation("C03.generate", "C03.generate/second-generation-from-the-same-object-differs/schema:%s" % (label.split("|")[1] if "|" in label else label), inp, expected="the headers of the first generation", actual=changed)
            files = again  # and it is the second set that has to compile
    except Exception as e:  # noqa
        S.violation("C03.generate", "C03.generate/exception:%s/schema:%s" % (type(e).__name__, label.split("|")[1] if "|" in label else label), inp, expected="headers", actual="%s: %s" % (type(e).__name__, str(e)[:200]))
        return S
    exe, err = cppbuild.build(files, extra_cpp=extra_cpp(decls))
    if exe is None:
        # which header is at fault? try without each protocol header to give a stable class
        culprit = "?"
        for ln in err.split("\n"):
            if " error: " in ln:
                import os

                culprit = os.path.basename(ln.split(":")[0])
                break
        S.add("outcomes", "compile-error")
        S.violation("C03.compile", "C03.compile/cc-error/%s/schema:%s:%s" % (cppbuild.first_error(err), culprit, label.split("|")[0]), inp, expected="all generated headers compile as C++17", actual=err[-1200:])
        return S
    # each generated header on its own: a header must not rely on another one having been included first
    for hname in sorted(files):
        if not hname.endswith(".h") or hname in ("i_can_schema.h",):
            continue  # i_can_schema.h is an internal fragment included by can.h inside its namespace
        per_schema = hname == "fcp.h" or hname.startswith("fcp_") or hname.endswith(("_server.h", "_client.h"))
        if not per_schema and label != "two-protocols|A-B+B-A|enums":
            continue  # the schema-independent headers are compiled on their own for one program only
        S.count("executions")
        herr = cppbuild.compile_standalone(files, hname)
        if herr:
            kind = "protocol-header" if hname.startswith("fcp_") else "service-header" if hname.endswith(("_server.h", "_client.h")) else hname
            S.add("outcomes", "standalone-error")
            S.violation("C03.compile", "C03.compile/header-does-not-compile-on-its-own/%s/%s" % (kind, cppbuild.first_error(herr)), dict(inp, header=hname), expected="compiles as the only include of a translation unit", actual=herr[-900:])
    env = refcodec.Env(decls)
    reqs, index = [], []
    names = [d[1] for d in decls if d[0] == "struct"]
    for n in names:
        v = struct_value(n, values)
        ref = refcodec.encode(env, n, v)
        reqs.append({"op": "enc", "name": n, "value": v})
        index.append((n, v, ref, "enc"))
        reqs.append({"op": "dec", "name": n, "bytes": list(ref)})
        index.append((n, v, ref, "dec"))
    # rpc wrapper structs: [u8 service id][u8 method id][payload]
    for s in [d for d in decls if d[0] == "service"]:
        for m in s[3]:
            for payload, suffix in ((m[2], "Input"), (m[3], "Output")):
                v = {"service_id": s[2], "method_id": m[1], "payload": struct_value(payload, values)}
                ref = bytes([s[2], m[1]]) + refcodec.encode(env, payload, struct_value(payload, values))
                reqs.append({"op": "enc", "name": payload + suffix, "value": v})
                index.append((payload + suffix, v, ref, "enc"))
    answers = cppbuild.run_requests(exe, reqs)
    for (n, v, ref, op), a in zip(index, answers):
        S.count("executions")
        vin = dict(inp, struct=n, value=v, op=op)
        if op == "enc":
            if a.get("bytes") is not None and bytes(a["bytes"]) == ref:
                S.add("outcomes", "enc-ok")
            else:
                S.add("outcomes", "enc-differs")
                S.violation("C03.encode", "C03.encode/%s/schema:%s" % ("unknown-struct" if "null" in a else "bytes-differ", "rpc-wrapper" if n.endswith(("Input", "Output")) else "struct"), vin, expected=ref, actual=a)
        else:
            if a.get("value") == v:
                S.add("outcomes", "dec-ok")
            else:
                S.add("outcomes", "dec-differs")
                S.violation("C03.decode", "C03.decode/value-differs/schema", vin, expected=v, actual=a)
    S.sample({"program": label, "text": text})
    return S


def run_schema_level(S, tier):
    for s in pmap(run_one, programs(tier)):
        S.merge(s)
