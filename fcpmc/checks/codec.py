"""C01 (round trip), C02 (canonical wire format), C16 (truncation) for the Python codec.

One shared construction space: (alignment context, type tree) states built by BFS over
the type-constructor productions, plus field sequences; every state carries its
boundary-value executions on the real parser + serde."""

from __future__ import annotations

import itertools

import sys

from .. import common, refcodec, shapes
from ..schema import schema_for_structs, print_schema, type_str, type_depth
from ..common import Stats, Run, pmap, chunks


def build_space(tier, for_c16=False):
    st = Stats()
    if tier == "quick":
        widths = shapes.W_QUICK
        offsets = (0, 1, 3, 4, 7)
        d2_leaves, d3_leaves = shapes.REP12, []
        seq_reps, seq_len = shapes.REP12, 2
    else:
        widths = shapes.W_THOROUGH
        offsets = tuple(range(8))
        d2_leaves, d3_leaves = shapes.REP12, shapes.REP4
        seq_reps, seq_len = shapes.REP12, 3
    if for_c16 and tier != "quick":
        d3_leaves = []
    if for_c16 and tier == "quick":
        offsets = (0, 3)
    trees = []
    seen = set()
    transitions = 0
    for leaves, depth in ((shapes.leaves_full(widths), 1), (d2_leaves, 2), (d3_leaves, 3)):
        if not leaves:
            continue
        ts, tr = shapes.type_trees(leaves, depth)
        transitions += tr
        for t in ts:
            if t not in seen:
                seen.add(t)
                trees.append(t)
    structs = []
    sseen = set()
    for t in trees:
        for s in shapes.contexts(t, offsets, reversed_decl_offsets=(() if for_c16 else (3,))):
            transitions += 1
            if s not in sseen:
                sseen.add(s)
                structs.append(s)
    for s in shapes.field_sequences(seq_reps, seq_len, reversed_ids=not for_c16):
        transitions += 1
        if s not in sseen:
            sseen.add(s)
            structs.append(s)
    bounds = {
        "widths": "1..64" if len(widths) == 64 else list(widths),
        "offsets": list(offsets),
        "depth1_leaves": len(shapes.leaves_full(widths)),
        "depth2_leaves": len(d2_leaves),
        "depth3_leaves": len(d3_leaves),
        "sequence_len_max": seq_len,
        "type_trees": len(trees),
        "struct_states": len(structs),
    }
    return structs, transitions, bounds


def class_skeleton(t):
    k = t[0]
    if k in ("u", "i"):
        return k
    if k in ("arr", "dyn", "opt"):
        return "%s(%s)" % (k, class_skeleton(t[1]))
    if k == "st":
        return "st(" + ",".join(class_skeleton(f[2]) for f in t[1]) + ")"
    if k == "en":
        return "enum"
    return k


def shape_class(st):
    return ",".join("%s:%s" % (f[0].rstrip("0123456789"), class_skeleton(f[2])) for f in st[1])


def leaf_diffs(env, t, e, a, path=""):
    """Type-directed diff: list of (path, leaf type, expected, actual)."""
    k = t[0]
    if k == "ref" and env.kind(t[1]) == "struct":
        if not isinstance(a, dict) or not isinstance(e, dict) or set(a) != set(e):
            return [(path, t, e, a)]
        out = []
        for fname, _fid, ft in env.structs[t[1]]:
            out += leaf_diffs(env, ft, e[fname], a[fname], path + "/" + fname)
        return out
    if k in ("arr", "dyn"):
        if not isinstance(a, list) or not isinstance(e, list) or len(a) != len(e):
            return [(path, t, e, a)]
        out = []
        for i, (x, y) in enumerate(zip(e, a)):
            out += leaf_diffs(env, t[1], x, y, path + "/%d" % i)
        return out
    if k == "opt":
        if e is None or a is None:
            return [] if (e is None and a is None) else [(path, t, e, a)]
        return leaf_diffs(env, t[1], e, a, path)
    return [] if refcodec.same(e, a) else [(path, t, e, a)]


def only_signed_minimum(env, name, e, a):
    """True when every difference is an iN leaf whose expected -2^(N-1) came back as +2^(N-1)."""
    try:
        ds = leaf_diffs(env, ("ref", name), e, a)
    except Exception:  # noqa
        return False
    if not ds:
        return False
    for _p, t, x, y in ds:
        if not (t[0] == "i" and isinstance(x, int) and isinstance(y, int) and x == -(1 << (t[1] - 1)) and y == (1 << (t[1] - 1))):
            return False
    return True


SIGNED_MIN = "signed-minimum-decodes-as-positive"


_AS_LIMITED = [False]


def _limit_address_space():
    """Once per worker process: cap the address space ~1.5 GiB above what the process already uses, so that
    a decoder which allocates an announced 2^31..2^32-byte payload fails fast instead of touching gigabytes."""
    if _AS_LIMITED[0]:
        return
    _AS_LIMITED[0] = True
    import resource

    try:
        with open("/proc/self/statm") as f:
            vm_pages = int(f.read().split()[0])
        cur = vm_pages * resource.getpagesize()
        soft, hard = resource.getrlimit(resource.RLIMIT_AS)
        new = cur + (3 << 29)
        if hard != resource.RLIM_INFINITY:
            new = min(new, hard)
        resource.setrlimit(resource.RLIMIT_AS, (new, hard))
    except Exception:  # noqa
        pass


class Budget(BaseException):
    pass


def _count_calls(fn, limit):
    """Run fn() counting Python-level calls; abort with Budget when limit exceeded."""
    n = [0]

    def prof(frame, event, arg):
        if event == "call" or event == "c_call":
            n[0] += 1
            if limit is not None and n[0] > limit:
                sys.setprofile(None)
                raise Budget()

    sys.setprofile(prof)
    try:
        r = fn()
    finally:
        sys.setprofile(None)
    return r, n[0]


def make_worker(prop, tier):
    from fcp.parser import get_fcp_from_string
    from fcp import serde
    from fcp.error import Logger

    def work(chunk):
        S = Stats()
        named = [("S%d" % i, s) for i, s in chunk]
        decls, _h = schema_for_structs(named)
        text = print_schema(decls)
        env = refcodec.Env(decls)
        try:
            res = get_fcp_from_string(text, Logger({}))
            fcp = res.unwrap() if res.is_ok() else None
            perr = None if res.is_ok() else repr(res)
        except Exception as e:  # noqa
            fcp, perr = None, "%s: %s" % (type(e).__name__, str(e)[:300])
        if fcp is None:
            # isolate: parse each struct on its own so one rejected shape cannot hide the rest
            if len(chunk) > 1:
                for item in chunk:
                    S.merge(work([item]))
                return S
            S.count("executions")
            S.violation(
                prop + ".parse",
                "%s.parse/rejected/%s" % (prop, shape_class(chunk[0][1])),
                {"text": text},
                expected="schema accepted",
                actual=perr,
                note="front end rejects an in-scope schema",
            )
            return S
        for (name, s) in named:
            S.count("states")
            if shapes.nontrivial_shape(s):
                S.add("nontrivial", s)
            if prop == "C16":
                # truncation is quadratic in the encoding length: long strings/arrays only on shallow shapes
                deep = max(type_depth(f[2]) for f in s[1]) > (0 if tier == "quick" else 1)
                vals = shapes.struct_values(s, small=deep, limit=(32 if tier == "quick" else 256))
            else:
                vals = shapes.struct_values(s)
            S.count("value_mode_" + shapes.struct_values_mode(s))
            for v in vals:
                if prop == "C01":
                    _c01(S, serde, fcp, env, text, name, s, v)
                elif prop == "C02":
                    _c02(S, serde, fcp, env, text, name, s, v)
                else:
                    _c16(S, serde, fcp, env, text, name, s, v)
            if len(S.samples) < 2:
                S.sample({"struct": type_str(s), "values": len(vals), "example_value": common.jsonable(vals[-1])})
        return S

    return work


def _inp(text, name, s, v, **kw):
    d = {"text": text, "struct": name, "shape": type_str(s), "value": v}
    d.update(kw)
    return d


def _c01(S, serde, fcp, env, text, name, s, v):
    S.count("executions")
    sc = shape_class(s)
    try:
        enc = serde.encode(fcp, name, v)
    except Exception as e:  # noqa
        S.add("outcomes", "enc-exc")
        S.violation("C01.roundtrip", "C01.roundtrip/encode-exception:%s/%s" % (type(e).__name__, sc), _inp(text, name, s, v), expected="bytes", actual="%s: %s" % (type(e).__name__, str(e)[:200]))
        return
    try:
        dec = serde.decode(fcp, name, bytearray(enc))
    except Exception as e:  # noqa
        S.add("outcomes", "dec-exc")
        S.violation("C01.roundtrip", "C01.roundtrip/decode-exception:%s/%s" % (type(e).__name__, sc), _inp(text, name, s, v, bytes=bytes(enc)), expected=v, actual="%s: %s" % (type(e).__name__, str(e)[:200]))
        return
    if refcodec.same(dec, v):
        S.add("outcomes", "ok:%d" % len(enc))
    else:
        S.add("outcomes", "differs")
        if only_signed_minimum(env, name, v, dec):
            sc = SIGNED_MIN
        S.violation("C01.roundtrip", "C01.roundtrip/value-differs/%s" % sc, _inp(text, name, s, v, bytes=bytes(enc)), expected=v, actual=dec)


def _c02(S, serde, fcp, env, text, name, s, v):
    sc = shape_class(s)
    ref = refcodec.encode(env, name, v)
    # self-check of the model: decoder is written separately from the encoder
    back = refcodec.decode(env, name, ref)
    if not refcodec.same(back, v):
        raise AssertionError(("reference codec self-check failed", type_str(s), v, back))
    S.count("executions")
    try:
        enc = bytes(serde.encode(fcp, name, v))
        if enc == ref:
            S.add("outcomes", "enc-ok:%d" % len(enc))
        else:
            S.add("outcomes", "enc-differs")
            S.violation("C02.encode", "C02.encode/bytes-differ/%s" % sc, _inp(text, name, s, v), expected=ref, actual=enc)
    except Exception as e:  # noqa
        S.add("outcomes", "enc-exc")
        S.violation("C02.encode", "C02.encode/exception:%s/%s" % (type(e).__name__, sc), _inp(text, name, s, v), expected=ref, actual="%s: %s" % (type(e).__name__, str(e)[:200]))
    S.count("executions")
    try:
        dec = serde.decode(fcp, name, bytearray(ref))
        if refcodec.same(dec, v):
            S.add("outcomes", "dec-ok")
        else:
            S.add("outcomes", "dec-differs")
            if only_signed_minimum(env, name, v, dec):
                sc = SIGNED_MIN
            S.violation("C02.decode", "C02.decode/value-differs/%s" % sc, _inp(text, name, s, v, bytes=ref), expected=v, actual=dec)
    except Exception as e:  # noqa
        S.add("outcomes", "dec-exc")
        S.violation("C02.decode", "C02.decode/exception:%s/%s" % (type(e).__name__, sc), _inp(text, name, s, v, bytes=ref), expected=v, actual="%s: %s" % (type(e).__name__, str(e)[:200]))


def _prefix_positions(env, name, v):
    """Byte offsets of every u32 length prefix inside the canonical encoding, with the count."""
    out = []

    class W(refcodec._W):
        def word(self, val, bits):
            super().word(val, bits)

    w = refcodec._W()

    def enc(t, val):
        k = t[0]
        if k in ("str", "dyn"):
            out.append((w.pos, len(val)))
            w.word(len(val), 32)
            if k == "str":
                for ch in val:
                    w.word(ord(ch), 8)
            else:
                for x in val:
                    enc(t[1], x)
        elif k == "ref" and env.kind(t[1]) == "struct":
            for fname, _fid, ft in sorted(env.structs[t[1]], key=lambda f: f[1]):
                enc(ft, val[fname])
        elif k == "arr":
            for x in val:
                enc(t[1], x)
        elif k == "opt":
            w.word(0 if val is None else 1, 8)
            if val is not None:
                enc(t[1], val)
        else:
            refcodec._enc(env, w, t, val)

    enc(("ref", name), v)
    return out, w


def _c16(S, serde, fcp, env, text, name, s, v):
    sc = shape_class(s)
    ref = refcodec.encode(env, name, v)
    # calibration: cost of decoding the valid, complete encoding
    try:
        _r, s0 = _count_calls(lambda: serde.decode(fcp, name, bytearray(ref)), None)
    except Exception:  # noqa
        s0 = 0  # a C01/C02 matter, not judged here
    cases = []
    for k in range(len(ref)):
        cases.append(("cut=%d" % k, ref[:k]))
    prefixes, _w = _prefix_positions(env, name, v)
    total_bits = 8 * len(ref)
    for bitpos, n in prefixes:
        for c in (n + 1, n + 2, 255, 65536, 2**31, 2**32 - 1):
            if c == n or c >= 2**32:
                continue
            acc = int.from_bytes(ref, "little")
            acc &= ~(((1 << 32) - 1) << bitpos)
            acc |= c << bitpos
            data = acc.to_bytes(len(ref), "little")
            cases.append(("count@%d=%d" % (bitpos, c), data))
    for label, data in cases:
        S.count("executions")
        budget = 64 * 8 * len(data) + 2 * s0 + 200
        try:
            refcodec.decode(env, name, data)
            must_raise = False
        except refcodec.DecodeError:
            must_raise = True
        if label.startswith("cut=") and not must_raise:
            raise AssertionError(("reference decoder accepted a strict prefix", type_str(s), v, label))
        huge = label.startswith("count@") and int(label.split("=")[1]) >= (1 << 20)
        if huge:
            # 'work bounded by the input': also in memory.  A decoder that allocates what the prefix announces
            # before looking at the data shows up as a traced peak far above the input size.
            import tracemalloc

            _limit_address_space()
            tracemalloc.start()
            try:
                try:
                    serde.decode(fcp, name, bytearray(data))
                    peak = tracemalloc.get_traced_memory()[1]
                except MemoryError:
                    peak = 1 << 62  # it tried to allocate what the prefix announced
                except Exception:  # noqa
                    peak = tracemalloc.get_traced_memory()[1]
            finally:
                tracemalloc.stop()
            S.count("executions")
            if peak > (4 << 20) + 256 * len(data):
                S.add("outcomes", "memory")
                S.violation(
                    "C16.budget",
                    "C16.budget/memory-grows-with-announced-length/%s" % sc,
                    _inp(text, name, s, v, bytes=data, op=label, full=ref),
                    expected="peak memory bounded by the input (%d bytes)" % len(data),
                    actual="peak %d bytes" % peak,
                )
                continue
        try:
            got, _n = _count_calls(lambda: serde.decode(fcp, name, bytearray(data)), budget)
            if must_raise:
                S.add("outcomes", "returned")
                S.violation(
                    "C16.truncated",
                    "C16.truncated/returned-value/%s/%s" % ("cut" if label.startswith("cut") else "count", sc),
                    _inp(text, name, s, v, bytes=data, op=label, full=ref),
                    expected="decoding error",
                    actual=got,
                )
            else:
                S.add("outcomes", "legit-value")
        except Budget:
            S.add("outcomes", "budget")
            S.violation(
                "C16.budget",
                "C16.budget/step-budget-exceeded/%s/%s" % ("cut" if label.startswith("cut") else "count", sc),
                _inp(text, name, s, v, bytes=data, op=label, full=ref),
                expected="work bounded by input: <= %d calls" % budget,
                actual="aborted after %d calls" % budget,
            )
        except Exception as e:  # noqa
            S.add("outcomes", "raised:" + type(e).__name__)
            if not must_raise:
                S.count("raised_where_reference_accepts")


def run_vectors(S, prop):
    """The Python codec itself on the 26 project vectors (no upstream test does this)."""
    from fcp.parser import get_fcp_from_string
    from fcp import serde
    from fcp.error import Logger

    for schema, tname, text, decls, sname, value, data in refcodec.load_project_vectors(common.REPO):
        fcp = get_fcp_from_string(text, Logger({})).unwrap()
        S.count("executions")
        S.count("project_vectors")
        try:
            enc = bytes(serde.encode(fcp, sname, value))
            dec = serde.decode(fcp, sname, bytearray(data))
            ok = enc == data and refcodec.same(dec, value)
            det = {"enc": enc, "dec": dec}
        except Exception as e:  # noqa
            ok, det = False, "%s: %s" % (type(e).__name__, str(e)[:200])
        if not ok:
            env = refcodec.Env(decls)
            if isinstance(det, dict) and det["enc"] == data and only_signed_minimum(env, sname, value, det["dec"]):
                tname = SIGNED_MIN
            S.violation(prop + ".vector", "%s.vector/project-vector-mismatch/%s:%s" % (prop, schema, tname), {"text": text, "struct": sname, "value": value, "bytes": data}, expected={"enc": data, "dec": value}, actual=det)


# element types that occupy no bits: a count prefix alone would then announce any number of elements
# the same shapes as description tuples, for trees built through the constructors (no parser in front of the decoder)
ZERO_WIDTH_TREES = [
    ("built:dyn-of-empty-array", [("struct", "S", (("a", 0, ("dyn", ("arr", ("u", 8), 0)), None, None),))]),
    ("built:dyn-of-u0", [("struct", "S", (("a", 0, ("dyn", ("u", 0)), None, None),))]),
    ("built:dyn-of-i0", [("struct", "S", (("a", 0, ("dyn", ("i", 0)), None, None),))]),
    ("built:dyn-of-negative-array", [("struct", "S", (("a", 0, ("dyn", ("arr", ("u", 8), -1)), None, None),))]),
    ("built:dyn-of-empty-struct", [("struct", "Mark", (("pad", 0, ("arr", ("u", 16), 0), None, None),)), ("struct", "S", (("a", 0, ("dyn", ("ref", "Mark")), None, None),))]),
]

ZERO_WIDTH = [
    ("dyn-of-empty-array", "struct S { a @0: [[u8, 0]], }"),
    ("dyn-of-u0", "struct S { a @0: [u0], }"),
    ("dyn-of-i0", "struct S { a @0: [i00], }"),
    ("dyn-of-negative-array", "struct S { a @0: [[u8, -1]], }"),
    ("dyn-of-fractional-array", "struct S { a @0: [[u8, 0.9]], }"),
    ("dyn-of-empty-struct", "struct Mark { pad @0: [u16, 0], }\nstruct S { a @0: [Mark], }"),
    ("dyn-of-array-of-empty", "struct S { p @0: u3, a @1: [[[i7, 0], 3]], }"),
    ("dyn-of-dyn-of-u0", "struct S { a @0: [[u0]], }"),
]


def zero_width_worker(chunk):
    """Schemas whose dynamic-array element type has no bits: the front end must refuse them, or the decoder
    must still do work bounded by the input when only a count prefix is present."""
    from fcp.parser import get_fcp_from_string
    from fcp import serde
    from fcp.error import Logger

    S = Stats()
    for label, body in chunk:
        S.count("states")
        S.count("transitions")
        if label.startswith("built:"):
            # a tree built through the constructors and accepted by the general verifier: the decoder is on its own
            from .. import build
            from fcp.verifier import make_general_verifier

            text = print_schema(body)
            try:
                fcp = build.build_fcp(body, default_impls=True)
                if make_general_verifier().verify(fcp).is_err():
                    S.add("outcomes", "zero-width:refused-by-verifier")
                    continue
            except Exception:  # noqa  (a constructor that refuses the width is as good)
                S.add("outcomes", "zero-width:refused-by-constructor")
                continue
            body = text
        else:
            text = 'version: "3"\n' + body + "\n"
            try:
                res = get_fcp_from_string(text, Logger({}))
            except Exception:  # noqa  (C11's subject)
                S.add("outcomes", "zero-width:front-end-raises")
                continue
            if not res.is_ok():
                S.add("outcomes", "zero-width:refused-by-front-end")
                continue
            fcp = res.unwrap()
        S.add("nontrivial", label)
        lead = b"\x00" if "p @0" in body else b""
        for count in (4096, 200000, 2**32 - 1):
            data = lead + (count << (3 if lead else 0)).to_bytes(5 if lead else 4, "little")
            S.count("executions")
            budget = 64 * 8 * len(data) + 2000
            _limit_address_space()
            try:
                got, _n = _count_calls(lambda: serde.decode(fcp, "S", bytearray(data)), budget)
                S.add("outcomes", "zero-width:returned")
                S.violation("C16.truncated", "C16.truncated/returned-value/count/zero-width-element", {"text": text, "struct": "S", "bytes": data, "op": "count=%d, no data" % count}, expected="decoding error", actual=common.jsonable(got) if count < 10000 else "%d fabricated elements" % count)
            except Budget:
                S.add("outcomes", "zero-width:budget")
                S.violation("C16.budget", "C16.budget/step-budget-exceeded/count/zero-width-element", {"text": text, "struct": "S", "bytes": data, "op": "count=%d, no data" % count}, expected="work bounded by input: <= %d calls" % budget, actual="aborted after %d calls" % budget)
            except MemoryError:
                S.add("outcomes", "zero-width:memory")
                S.violation("C16.budget", "C16.budget/memory-grows-with-announced-length/zero-width-element", {"text": text, "struct": "S", "bytes": data, "op": "count=%d, no data" % count}, expected="bounded by input", actual="MemoryError")
            except Exception as e:  # noqa
                S.add("outcomes", "zero-width:raised:" + type(e).__name__)
    return S


HIST_SCHEMA = [
    ("struct", "A", (("p", 0, shapes.U(3), None, None), ("q", 1, ("arr", shapes.I(5), 2), None, None), ("s", 2, ("str",), None, None))),
    ("struct", "B", (("x", 0, shapes.U(8), None, None), ("y", 1, shapes.I(16), None, None))),
]
HIST_VALUES = {"A": {"p": 5, "q": [-3, 7], "s": "hi"}, "B": {"x": 1, "y": -2}}
HIST_OPS = ["enc:A", "enc:B", "enc-missing-member:A", "enc-wrong-type:B", "enc-short-array:A", "dec:A", "dec:B", "dec-truncated:A", "dec-truncated:B"]


def run_codec_histories(S, prop, tier):
    """Every sequence of codec calls (length <= 3, thorough 4) in ONE process, failing calls included: a call that
    raises part-way must leave nothing behind that changes what a later call returns (fork-snapshot exploration)."""
    from fcp.parser import get_fcp_from_string
    from fcp import serde
    from fcp.error import Logger
    from ..common import fork_histories

    text = print_schema(HIST_SCHEMA)
    env = refcodec.Env(HIST_SCHEMA)
    fcp = get_fcp_from_string(text, Logger({})).unwrap()
    ref = {n: refcodec.encode(env, n, v) for n, v in HIST_VALUES.items()}

    def apply_op(op, hist):
        kind, name = op.split(":")
        v = HIST_VALUES[name]
        try:
            if kind == "enc":
                return {"bytes": bytes(serde.encode(fcp, name, v))}
            if kind == "enc-missing-member":
                return {"returned": bytes(serde.encode(fcp, name, {k: x for k, x in list(v.items())[:-1]}))}
            if kind == "enc-wrong-type":
                return {"returned": bytes(serde.encode(fcp, name, dict(v, y="text")))}
            if kind == "enc-short-array":
                return {"returned": bytes(serde.encode(fcp, name, dict(v, q=[1])))}
            if kind == "dec":
                return {"value": serde.decode(fcp, name, bytearray(ref[name]))}
            if kind == "dec-truncated":
                return {"returned": serde.decode(fcp, name, bytearray(ref[name][:-1]))}
        except Exception as e:  # noqa
            return {"raised": type(e).__name__}
        raise AssertionError(op)

    depth = 3 if tier == "quick" else 4
    for hist, o in fork_histories(HIST_OPS, depth, apply_op):
        S.count("states")
        S.count("transitions")
        S.count("executions")
        S.count("codec_histories")
        S.add("nontrivial", ("hist", hist))
        kind, name = hist[-1].split(":")
        inp = {"text": text, "family": "call-history", "ops": list(hist), "values": HIST_VALUES}
        if "exception" in o or "harness_error" in o:
            S.violation(prop + ".history", "%s.history/harness" % prop, inp, actual=o)
        elif kind == "enc":
            if o.get("bytes") != ref[name]:
                S.add("outcomes", "hist-enc-differs")
                S.violation(prop + ".history", "%s.history/encode-depends-on-earlier-calls/after:%s" % (prop, hist[-2].split(":")[0] if len(hist) > 1 else "-"), inp, expected=ref[name], actual=o)
            else:
                S.add("outcomes", "hist-enc-ok")
        elif kind == "dec":
            if "value" not in o or not refcodec.same(o["value"], HIST_VALUES[name]):
                S.add("outcomes", "hist-dec-differs")
                S.violation(prop + ".history", "%s.history/decode-depends-on-earlier-calls/after:%s" % (prop, hist[-2].split(":")[0] if len(hist) > 1 else "-"), inp, expected=HIST_VALUES[name], actual=o)
            else:
                S.add("outcomes", "hist-dec-ok")
        else:
            S.add("outcomes", "hist-" + ("raised" if "raised" in o else "returned"))


TEXT_VALUES = ["\ufeff", "\ufeffabc", "a\ufeff", "\u00e9", "\u20acuro", "\U0001f600", "x\x00y", "\u00a0 \u2028", "\ufffe", "\u0080"]


def run_text(S):
    """C01 speaks of all in-range values, 7-bit ASCII being singled out 'in particular': strings of any text (a leading
    U+FEFF, characters of 2, 3 and 4 UTF-8 bytes, NUL) at every position a string can take must come back as they went in."""
    from fcp.parser import get_fcp_from_string
    from fcp import serde
    from fcp.error import Logger
    from ..schema import STR, U, Arr, Dyn, Opt, St

    shapes_ = [
        ("st", (("s", 0, STR),)),
        ("st", (("p", 0, U(3)), ("s", 1, STR), ("t", 2, U(5)))),
        ("st", (("o", 0, Opt(STR)), ("t", 1, U(8)))),
        ("st", (("a", 0, Arr(STR, 2)),)),
        ("st", (("p", 0, U(1)), ("d", 1, Dyn(STR)))),
        ("st", (("d", 0, Dyn(St(U(3), STR))), ("t", 1, STR))),
    ]
    named = [("T%d" % i, s_) for i, s_ in enumerate(shapes_)]
    decls, _h = schema_for_structs(named)
    text = print_schema(decls)
    env = refcodec.Env(decls)
    fcp = get_fcp_from_string(text, Logger({})).unwrap()

    def fill(t, sv):
        k = t[0]
        if k == "str":
            return sv
        if k == "st":
            return {f[0]: fill(f[2], sv) for f in t[1]}
        if k == "arr":
            return [fill(t[1], sv) for _ in range(t[2])]
        if k == "dyn":
            return [fill(t[1], sv), fill(t[1], "")]
        if k == "opt":
            return fill(t[1], sv)
        return 1

    for name, s_ in named:
        S.count("states")
        S.count("transitions")
        S.add("nontrivial", ("text", s_))
        for sv in TEXT_VALUES:
            _c01(S, serde, fcp, env, text, name, s_, fill(s_, sv))


def run(prop, tier):
    common.bind_repo()
    r = Run(prop, tier)
    nvec, bad = refcodec.check_project_vectors(common.REPO)
    if bad:
        print("HARNESS ERROR: reference codec misses project vectors:", bad[:3])
        return 2
    structs, transitions, bounds = build_space(tier, for_c16=(prop == "C16"))
    if prop == "C01":
        # Field ids need not be unique for a schema to be accepted (no check asks for it); whatever order the
        # codec gives equal ids, decode(encode(v)) has to return v.  (C02 cannot judge these: no canonical order.)
        dup = []
        for a, b in itertools.product(shapes.REP6, repeat=2):
            dup.append(("st", (("g0", 0, a), ("g1", 0, b))))
            dup.append(("st", (("g0", 1, a), ("g1", 0, shapes.U(3)), ("g2", 1, b))))
        dup.append(("st", (("g0", 7, shapes.U(8)), ("g1", 7, shapes.I(6)), ("g2", 7, ("str",)), ("g3", 7, ("st", (("a", 0, shapes.U(3)), ("b", 0, shapes.I(5))))))))
        structs = structs + [d for d in dup if d not in structs]
        bounds["duplicate_field_id_shapes"] = len(dup)
        transitions += len(dup)
    r.bounds = bounds
    r.bounds["project_vectors_reproduced_by_reference"] = nvec
    indexed = list(enumerate(structs))
    work = make_worker(prop, tier)
    per = 24
    results = pmap(work, chunks(indexed, per))
    for s in results:
        r.stats.merge(s)
    r.stats.c["transitions"] += transitions
    if prop in ("C01", "C02"):
        run_vectors(r.stats, prop)
    if prop == "C01":
        run_text(r.stats)
        r.bounds["text_values_beyond_ascii"] = len(TEXT_VALUES)
    if prop == "C02":
        run_codec_histories(r.stats, prop, tier)
        r.bounds["codec_call_history_depth"] = 3 if tier == "quick" else 4
    if prop == "C16":
        for s in pmap(zero_width_worker, [[z] for z in ZERO_WIDTH + ZERO_WIDTH_TREES]):
            r.stats.merge(s)
        r.bounds["zero_width_element_schemas"] = len(ZERO_WIDTH) + len(ZERO_WIDTH_TREES)
    r.rule = (
        "states = distinct (alignment context, type tree) struct shapes reached by BFS over the productions "
        "{leaf, Arr n=1..3, Dyn, Opt, nested struct 1|2 fields, pad offset p, tail on/off, field sequence}; "
        "each state is parsed from text by the real front end and executed on serde for every boundary value "
        "(full product when <=256 combinations, else star). non-trivial = shape with a field that is not byte-aligned/"
        "not a whole number of bytes, or with a container."
    )
    r.assumptions = [
        "reference wire codec (fcpmc/refcodec.py) is the canonical format; it reproduces all project vectors in both directions at the start of this run",
        "strings are 7-bit ASCII; integer values are boundary values, not all 2^N",
        "CPython, lark, pyserde, beartype are trusted",
    ]
    return r.finish()


def replay(doc):
    common.bind_repo()
    from fcp.parser import get_fcp_from_string
    from fcp import serde
    from fcp.error import Logger

    inp = doc["input"]
    text, name = inp["text"], inp.get("struct")
    value = unjson(inp.get("value"))
    fcp = get_fcp_from_string(text, Logger({}))
    print("parse:", "ok" if fcp.is_ok() else fcp)
    if not fcp.is_ok():
        return 1
    fcp = fcp.unwrap()
    if "bytes" in inp and doc["check"].startswith(("C16", "C02.decode")):
        data = bytes.fromhex(inp["bytes"]["hex"])
        try:
            print("decode(%s) ->" % data.hex(), serde.decode(fcp, name, bytearray(data)))
        except Exception as e:  # noqa
            print("decode raised", type(e).__name__, e)
        print("expected:", doc["expected"])
        return 0
    try:
        enc = serde.encode(fcp, name, value)
        print("encode ->", bytes(enc).hex())
        print("decode ->", serde.decode(fcp, name, bytearray(enc)))
    except Exception as e:  # noqa
        print("raised", type(e).__name__, e)
    print("value    :", value)
    print("expected :", doc["expected"])
    return 0


def unjson(x):
    import struct

    if isinstance(x, dict):
        if set(x.keys()) == {"f64hex"}:
            return struct.unpack("<d", bytes.fromhex(x["f64hex"]))[0]
        if set(x.keys()) == {"hex"}:
            return bytes.fromhex(x["hex"])
        return {k: unjson(v) for k, v in x.items()}
    if isinstance(x, list):
        return [unjson(v) for v in x]
    return x
