"""C07: parsing is the inverse of printing."""

from __future__ import annotations

import json
import os
import tempfile

from .. import common, reftree, descs
from ..schema import print_schema, VARIANTS
from ..common import Stats, Run, pmap, chunks


def classify(label, diffs):
    d = diffs[0]
    # strip indices / concrete values: keep the path skeleton
    import re

    path = d.split(":")[0]
    path = re.sub(r"\[\d+\]", "[]", path)
    return "%s%s" % (label, path)


def make_worker(tier):
    from fcp.parser import get_fcp_from_string, get_fcp
    from fcp.error import Logger

    variants = VARIANTS if tier != "quick" else ("canonical", "compact", "commented", "nopipes", "pipes", "trailing", "noas", "noparens", "bare")

    def parse(text):
        try:
            r = get_fcp_from_string(text, Logger({}))
        except Exception as e:  # noqa
            return None, "exception %s: %s" % (type(e).__name__, str(e)[:300])
        if r.is_err():
            return None, "Err: " + repr(r.err())[:400]
        return r.unwrap().to_dict(), None

    def work(chunk):
        S = Stats()
        for idx, (label, decls) in chunk:
            S.count("states")
            exp = reftree.expected(decls)
            if len({d[0] for d in decls}) >= 2 or len(decls) >= 2:
                S.add("nontrivial", idx)
            results = {}
            for variant in variants:
                text = print_schema(decls, variant)
                if variant != "canonical" and text == results.get("canonical", (None,))[0]:
                    pass
                S.count("executions")
                S.count("transitions")
                tree, err = parse(text)
                results[variant] = (text, tree, err)
                inp = {"text": text, "variant": variant, "description": decls}
                if err is not None:
                    kind = err.split(":")[0].replace(" ", "-")
                    S.add("outcomes", kind)
                    S.violation("C07.parse", "C07.parse/%s/%s" % (kind, label if variant != "bare" else "spelling-without-parentheses-and-pipes:" + label), inp, expected="Ok(tree)", actual=err)
                    continue
                diffs = reftree.project_diff(exp, tree)
                if diffs:
                    S.add("outcomes", "tree-differs")
                    S.violation("C07.tree", "C07.tree/differs/" + classify(label, diffs), inp, expected=common.jsonable(_plain(exp)), actual={"diffs": diffs[:8], "tree": tree})
                else:
                    S.add("outcomes", ("ok", label))
            base = results.get("canonical")
            if base and base[1] is not None:
                # line terminators are white space too: the canonical text with CRLF and with lone CR, parsed from a string
                for lt, rep in (("crlf", "\r\n"), ("cr", "\r")):
                    S.count("executions")
                    S.count("transitions")
                    t2 = base[0].replace("\n", rep)
                    tree, err = parse(t2)
                    results[lt] = (t2, tree if err is None else err, err)
                    # and the commented text: a line comment has to end where the line ends
                    if "commented" in results and results["commented"][1] is not None:
                        S.count("executions")
                        t3 = results["commented"][0].replace("\n", rep)
                        tree, err = parse(t3)
                        results["commented+" + lt] = (t3, tree if err is None else err, err)
            if base and base[1] is not None:
                for variant, (text, tree, err) in results.items():
                    if tree is not None and tree != base[1]:
                        S.add("outcomes", "variant-differs")
                        S.violation("C07.variants", "C07.variants/result-depends-on-formatting/%s/%s" % (variant, label), {"text": text, "canonical_text": base[0], "variant": variant}, expected=base[1], actual=tree)
            # file entry point on a slice
            if idx % 7 == 0 and base and base[1] is not None:
                with tempfile.TemporaryDirectory(prefix="fcpmc-c07-") as td:
                    p = os.path.join(td, "main.fcp")
                    open(p, "w").write(base[0])
                    S.count("executions")
                    try:
                        r = get_fcp(p, Logger({}))
                        tree = r.unwrap().to_dict() if r.is_ok() else None
                    except Exception as e:  # noqa
                        tree = "exception %s" % type(e).__name__
                    if tree != base[1]:
                        S.violation("C07.file", "C07.file/get_fcp-differs-from-string/" + label, {"text": base[0]}, expected=base[1], actual=tree)
                    # the same file saved with CRLF line endings (what an editor on another platform writes)
                    with open(p, "w", newline="") as f:
                        f.write(base[0].replace("\n", "\r\n"))
                    S.count("executions")
                    try:
                        r = get_fcp(p, Logger({}))
                        tree = r.unwrap().to_dict() if r.is_ok() else repr(r.err())[:200]
                    except Exception as e:  # noqa
                        tree = "exception %s" % type(e).__name__
                    if tree != base[1]:
                        S.violation("C07.file", "C07.file/crlf-file-differs/" + label, {"text": base[0].replace("\n", "\r\n")}, expected=base[1], actual=tree)
            if len(S.samples) < 2:
                S.sample({"label": label, "text": print_schema(decls, "compact")})
        return S

    return work


def _plain(x):
    if isinstance(x, reftree.Exact):
        return _plain(x.v)
    if isinstance(x, dict):
        return {k: _plain(v) for k, v in x.items()}
    if isinstance(x, list):
        return [_plain(v) for v in x]
    return x


def golden_selfcheck():
    """The expected-tree builder must reproduce the repository's golden JSON files from
    hand-transcribed descriptions (binds reftree to the project's own expectations)."""
    from ..schema import U, I, Arr, Dyn, Opt

    G = common.REPO + "/tests/schemas/syntax/"
    cases = {
        "001_basic_struct": None,
        "005_extends": [("struct", "A", (("field1", 0, U(8), None, None),)), ("impl", "protocol1", "A", None, (("id", 2),), (("field1", (("bitstart", 0), ("bitlength", 8))),))],
        "009_optional": [("struct", "S1", (("field1", 0, Opt(U(8)), None, None),))],
        "011_device_services": [
            ("struct", "A", (("field1", 0, U(8), None, None),)),
            ("struct", "B", (("field1", 0, U(16), None, None),)),
            ("service", "Service", 0, (("Foo", 0, "A", "B"),)),
            ("device", "ecu", (("services", [("id", "Service")]),)),
        ],
    }
    bad = []
    n = 0
    for name, decls in cases.items():
        if decls is None:
            continue
        gold = json.load(open(G + name + ".json"))
        diffs = reftree.project_diff(reftree.expected(decls), gold)
        n += 1
        if diffs:
            bad.append((name, diffs[:3]))
    return n, bad


def run(tier):
    common.bind_repo()
    r = Run("C07", tier)
    n, bad = golden_selfcheck()
    if bad:
        print("HARNESS ERROR: expected-tree builder disagrees with golden files:", bad)
        return 2
    ds, transitions = descs.descriptions(tier)
    r.bounds = {"descriptions": len(ds), "variants": (9 if tier == "quick" else len(VARIANTS)) + 2, "golden_files_reproduced": n}
    work = make_worker(tier)
    for s in pmap(work, chunks(list(enumerate(ds)), 8)):
        r.stats.merge(s)
    r.stats.c["transitions"] += transitions
    r.rule = (
        "states = schema descriptions built production by production (every type alternative nested to the depth bound, params, enums, bindings with every "
        "extension value form, signal blocks, services, devices, lexer-colliding identifiers in every identifier slot); each printed under every formatting "
        "variant and parsed by the real front end; oracle = independently built expected tree (projection on the attributes the statement names) and equality "
        "of full results across variants. non-trivial = description with >= 2 declarations."
    )
    r.assumptions = ["expected-tree builder fcpmc/reftree.py, bound to the repository's golden JSON files at start", "keys of to_dict() not named by the property are ignored"]
    return r.finish()


def replay(doc):
    common.bind_repo()
    from fcp.parser import get_fcp_from_string
    from fcp.error import Logger

    text = doc["input"]["text"]
    print(text)
    try:
        r = get_fcp_from_string(text, Logger({}))
        print("result:", r.unwrap().to_dict() if r.is_ok() else r)
    except Exception as e:  # noqa
        print("exception", type(e).__name__, str(e)[:500])
    print("expected:", json.dumps(doc["expected"])[:2000])
    return 0
