"""C08: accepted schemas have no dangling or mis-kinded type references."""

from __future__ import annotations

import itertools
import os
import shutil
import tempfile

from .. import common
from ..schema import U, Arr, Dyn, Opt, print_schema, type_str
from ..common import Stats, Run, pmap, chunks, bfs

STRUCT_X = ("struct", "X", (("a", 0, U(8), None, None),))
ENUM_X = ("enum", "X", (("e0", 0), ("e1", 1)))
UNRELATED = [("struct", "Un0", (("a", 0, U(3), None, None),)), ("enum", "Un1", (("k", 0),))]


def wrappers(depth):
    order, tr = bfs([("ref", "X")], lambda t: [("arr", Arr(t, 2)), ("dyn", Dyn(t)), ("opt", Opt(t))], lambda t: t, depth)
    return [t for t, _ in order], tr


def placements():
    """(label, files dict builder, expect_ok, kind)"""
    out = []

    def R(t, name="X"):
        return ("struct", "R", (("pre", 0, U(8), None, None), ("r", 1, _rename(t, name), None, None)))

    out.append(("struct-before", lambda t: {"main": [STRUCT_X, R(t)]}, True, "Struct"))
    out.append(("enum-before", lambda t: {"main": [ENUM_X, R(t)]}, True, "Enum"))
    out.append(("struct-after", lambda t: {"main": [R(t), STRUCT_X]}, False, None))
    out.append(("enum-after", lambda t: {"main": [R(t), ENUM_X]}, False, None))
    out.append(("self", lambda t: {"main": [R(t, "R")]}, False, None))
    out.append(("undeclared", lambda t: {"main": [R(t)]}, False, None))
    # a binding alias is not a type: 'impl can for X as Msg' must not make 'Msg' usable as a field type
    out.append(("impl-alias-as-type", lambda t: {"main": [STRUCT_X, ("impl", "can", "X", "Msg", (("id", 1),), ()), ("struct", "R", (("pre", 0, U(8), None, None), ("r", 1, _rename(t, "Msg"), None, None)))]}, False, None))
    out.append(("case-differs", lambda t: {"main": [("struct", "x", STRUCT_X[2]), R(t)]}, False, None))
    out.append(("mod-struct-before", lambda t: {"main": [("mod", "m1"), R(t)], "m1": [STRUCT_X]}, True, "Struct"))
    out.append(("mod-enum-before", lambda t: {"main": [("mod", "m1"), R(t)], "m1": [ENUM_X]}, True, "Enum"))
    out.append(("mod-after", lambda t: {"main": [R(t), ("mod", "m1")], "m1": [STRUCT_X]}, False, None))
    out.append(("mod-of-mod", lambda t: {"main": [("mod", "m1"), R(t)], "m1": [("mod", "m2")], "m2": [ENUM_X]}, True, "Enum"))
    out.append(("mod-dotted", lambda t: {"main": [("mod", "sub.m1"), R(t)], "sub/m1": [STRUCT_X]}, True, "Struct"))
    out.append(("mod-struct-using-mod-enum", lambda t: {"main": [("mod", "m1"), ("struct", "R", (("pre", 0, U(8), None, None), ("r", 1, _rename(t, "Y"), None, None)))], "m1": [ENUM_X, ("struct", "Y", (("e", 0, ("ref", "X"), None, None), ("es", 1, Arr(("ref", "X"), 2), None, None)))]}, True, "Struct"))
    out.append(("mod-enum-and-struct", lambda t: {"main": [("mod", "m1"), R(t)], "m1": [("struct", "Z", (("k", 0, U(1), None, None),)), ENUM_X]}, True, "Enum"))
    out.append(("dup-kind-across-import", lambda t: {"main": [ENUM_X, ("mod", "m1"), ("struct", "R", (("pre", 0, U(8), None, None), ("r", 1, ("ref", "Y"), None, None)))], "m1": [STRUCT_X, ("struct", "Y", (("pre", 0, U(8), None, None), ("w", 1, _rename(t, "X"), None, None)))]}, "dup", "Struct"))
    # one module reached along two import paths (the only way two modules can share a type): X must be declared ONCE
    Y = lambda t: ("struct", "Y", (("pre", 0, U(8), None, None), ("w", 1, _rename(t, "X"), None, None)))
    out.append(("diamond-main-first", lambda t: {"main": [("mod", "common"), ("mod", "m1"), R(t)], "common": [ENUM_X], "m1": [("mod", "common"), Y(t)]}, True, "Enum"))
    out.append(("diamond-module-first", lambda t: {"main": [("mod", "m1"), ("mod", "common"), R(t)], "common": [STRUCT_X], "m1": [("mod", "common"), Y(t)]}, True, "Struct"))
    out.append(("diamond-two-modules", lambda t: {"main": [("mod", "m1"), ("mod", "m2"), R(t)], "common": [STRUCT_X], "m1": [("mod", "common"), Y(t)], "m2": [("mod", "common"), ("struct", "Z", (("w", 0, _rename(t, "X"), None, None),))]}, True, "Struct"))
    out.append(("same-mod-twice", lambda t: {"main": [("mod", "common"), ("mod", "common"), R(t)], "common": [ENUM_X]}, True, "Enum"))
    out.append(("diamond-through-cached-module", lambda t: {"main": [("mod", "common"), ("mod", "m1"), ("mod", "m2"), ("struct", "R", (("pre", 0, U(8), None, None), ("r", 1, _rename(t, "Z"), None, None)))], "common": [ENUM_X], "m1": [("mod", "common"), Y(t)], "m2": [("mod", "m1"), ("struct", "Z", (("y", 0, ("ref", "Y"), None, None), ("w", 1, _rename(t, "X"), None, None)))]}, True, "Struct"))
    out.append(("inside-mod-undeclared", lambda t: {"main": [("mod", "m1")], "m1": [R(t)]}, False, None))
    out.append(("inside-mod-uses-main-decl", lambda t: {"main": [STRUCT_X, ("mod", "m1")], "m1": [R(t)]}, False, None))
    return out


def _rename(t, name):
    if t[0] == "ref":
        return ("ref", name)
    if t[0] == "arr":
        return ("arr", _rename(t[1], name), t[2])
    return (t[0], _rename(t[1], name))


def interleavings(decls, n_unrelated):
    """Insert n unrelated declarations at every combination of positions."""
    if n_unrelated == 0:
        return [list(decls)]
    out = []
    slots = range(len(decls) + 1)
    for pos in itertools.combinations_with_replacement(slots, n_unrelated):
        d = list(decls)
        for k, p in enumerate(sorted(pos, reverse=True)):
            d.insert(p, UNRELATED[n_unrelated - 1 - k] if n_unrelated == 2 else UNRELATED[0])
        out.append(d)
    return out


def build_cases(tier):
    ws, tr = wrappers(2 if tier == "quick" else 3)
    cases = []
    for label, builder, ok, kind in placements():
        for t in ws:
            files = builder(t)
            for n in (0, 1, 2) if tier != "quick" else (0, 1):
                for main in interleavings(files["main"], n):
                    f2 = dict(files)
                    f2["main"] = main
                    cases.append((label, t, f2, ok, kind))
    return cases, tr


_WDIR = {}


def _worker_dir():
    """One scratch directory per worker process, below the per-run base that run() removes."""
    pid = os.getpid()
    if pid not in _WDIR:
        _WDIR.clear()
        _WDIR[pid] = tempfile.mkdtemp(prefix="w-", dir=os.environ["FCPMC_WD_BASE"])
    return _WDIR[pid]


class WorkDirs:
    def __enter__(self):
        self.base = tempfile.mkdtemp(prefix="fcpmc-wd-")
        os.environ["FCPMC_WD_BASE"] = self.base
        return self

    def __exit__(self, *a):
        shutil.rmtree(self.base, ignore_errors=True)


def leaf_type(t):
    while hasattr(t, "underlying_type"):
        t = t.underlying_type
    return t


def make_worker(tier):
    from fcp.parser import get_fcp_from_string, get_fcp
    from fcp.error import Logger
    from fcp.specs.type import StructType, EnumType

    def run_case(files):
        if len(files) == 1:
            text = print_schema(files["main"])
            return get_fcp_from_string(text, Logger({})), {"main.fcp": text}
        # ONE directory per worker process, rewritten for every case: consecutive cases reuse the same paths,
        # so anything cached per path between parses shows up
        td = _worker_dir()
        for fn in os.listdir(td):
            p = os.path.join(td, fn)
            shutil.rmtree(p) if os.path.isdir(p) else os.remove(p)
        try:
            texts = {}
            for name, decls in files.items():
                p = os.path.join(td, name + ".fcp")
                os.makedirs(os.path.dirname(p), exist_ok=True)
                texts[name + ".fcp"] = print_schema(decls)
                open(p, "w").write(texts[name + ".fcp"])
            return get_fcp(os.path.join(td, "main.fcp"), Logger({})), texts
        finally:
            pass

    def work(chunk):
        S = Stats()
        for idx, (label, t, files, ok, kind) in chunk:
            S.count("states")
            S.count("transitions")
            S.count("executions")
            S.add("nontrivial", (label, t))
            wl = type_str(t).replace("X", "_")
            try:
                res, texts = run_case(files)
            except Exception as e:  # noqa
                S.add("outcomes", "exception")
                S.violation("C08.total", "C08.total/exception:%s/%s" % (type(e).__name__, label), {"files": {k: print_schema(v) for k, v in files.items()}}, expected="Ok or Err", actual="%s: %s" % (type(e).__name__, str(e)[:300]))
                continue
            inp = {"files": texts, "placement": label, "wrapper": type_str(t)}
            if ok == "dup":
                # two declarations named X (enum in main, struct in the module): the parser accepts, the verifier
                # rejects later; the module's reference must still find a declaration of the kind it is tagged with
                if res.is_err():
                    S.add("outcomes", "err-unexpected")
                    S.violation("C08.resolve", "C08.resolve/rejected-valid-reference/%s/%s" % (label, wl), inp, expected="Ok", actual=repr(res.err()))
                    continue
                fcp = res.unwrap()
                S.add("outcomes", "ok-dup")
                for st in fcp.structs:
                    for f in st.fields:
                        lt = leaf_type(f.type)
                        if isinstance(lt, StructType) and not any(d.name == lt.name for d in fcp.structs):
                            S.violation("C08.kind", "C08.kind/tagged-struct-but-no-such-struct/%s/%s" % (label, wl), inp, expected="a struct named " + lt.name, actual=[d.name for d in fcp.structs])
                        if isinstance(lt, EnumType) and not any(d.name == lt.name for d in fcp.enums):
                            S.violation("C08.kind", "C08.kind/tagged-enum-but-no-such-enum/%s/%s" % (label, wl), inp, expected="an enum named " + lt.name, actual=[d.name for d in fcp.enums])
                continue
            if ok:
                if res.is_err():
                    S.add("outcomes", "err-unexpected")
                    S.violation("C08.resolve", "C08.resolve/rejected-valid-reference/%s/%s" % (label, wl), inp, expected="Ok", actual=repr(res.err()))
                    continue
                fcp = res.unwrap()
                S.add("outcomes", "ok")
                for st in fcp.structs:
                    for f in st.fields:
                        lt = leaf_type(f.type)
                        if not isinstance(lt, (StructType, EnumType)):
                            continue
                        n = [d for d in fcp.structs + fcp.enums if d.name == lt.name]
                        found = fcp.get_type(lt)
                        if found.is_nothing() or len(n) != 1:
                            S.violation("C08.resolve", "C08.resolve/dangling-in-accepted-tree/%s/%s" % (label, wl), inp, expected="resolves to exactly one declaration", actual={"matches": len(n)})
                        elif type(found.unwrap()).__name__ != ("Struct" if isinstance(lt, StructType) else "Enum"):
                            S.violation("C08.kind", "C08.kind/mis-kinded-reference/%s/%s" % (label, wl), inp, expected=type(found.unwrap()).__name__, actual=lt.type)
                        elif st.name == "R" and f.name == "r" and lt.type != kind:
                            S.violation("C08.kind", "C08.kind/wrong-tag/%s/%s" % (label, wl), inp, expected=kind, actual=lt.type)
            else:
                if res.is_ok():
                    S.add("outcomes", "accepted-dangling")
                    S.violation("C08.reject", "C08.reject/accepted-undeclared-reference/%s/%s" % (label, wl), inp, expected="Err naming the type and the struct", actual=res.unwrap().to_dict())
                    continue
                S.add("outcomes", "err")
                msgs = "\n".join(m for m, _n, _w in res.err().msg)
                tname = "R" if label == "self" else "Msg" if label == "impl-alias-as-type" else "X"
                if ("'%s'" % tname) not in msgs or "struct R" not in msgs:
                    S.violation("C08.message", "C08.message/error-does-not-name-type-and-struct/%s/%s" % (label, wl), inp, expected="message chain names type %s and struct R" % tname, actual=msgs)
            if len(S.samples) < 2:
                S.sample({"placement": label, "wrapper": type_str(t), "files": texts, "expect_ok": ok})
        return S

    return work


def run(tier):
    common.bind_repo()
    r = Run("C08", tier)
    cases, tr = build_cases(tier)
    r.bounds = {"cases": len(cases), "wrapper_depth": 2 if tier == "quick" else 3, "unrelated_interleaved": "0..1" if tier == "quick" else "0..2", "placements": len(placements())}
    with WorkDirs():
        for s in pmap(make_worker(tier), chunks(list(enumerate(cases)), 40)):
            r.stats.merge(s)
    r.stats.c["transitions"] += tr
    # visibility over whole import graphs (machinery shared with C20): a reference is accepted exactly when the file
    # that makes it imports, directly or through its imports, the file that declares the type
    from . import c20

    r.bounds["import_graphs_with_one_reference"] = c20.run_graphs(r.stats, tier, prop="C08", with_refs=True)
    r.rule = (
        "states = (placement of the referenced declaration: before/after/self/undeclared/case-differs/imported before/after/module of module/dotted/inside module) x "
        "(wrapper chain over Arr, Dyn, Opt to the depth bound) x (0..2 unrelated declarations interleaved at every position); module cases run on a real scratch file tree. "
        "oracle = resolution spec: accepted iff declared earlier; tag = declaration kind; error names type and enclosing struct. Plus every acyclic import graph over 4 files (and a family over 5) "
        "with at most one cross-file reference: accepted exactly when the referring file's own imports reach the declaring file. every state is non-trivial."
    )
    r.assumptions = ["duplicate type names are C09's subject and are not in this space"]
    return r.finish()


def replay(doc):
    common.bind_repo()
    from fcp.parser import get_fcp
    from fcp.error import Logger

    td = tempfile.mkdtemp(prefix="fcpmc-replay-")
    try:
        for name, text in doc["input"]["files"].items():
            p = os.path.join(td, name)
            os.makedirs(os.path.dirname(p), exist_ok=True)
            open(p, "w").write(text)
            print("---", name)
            print(text)
        try:
            r = get_fcp(os.path.join(td, "main.fcp"), Logger({}))
            print("result:", r.unwrap().to_dict() if r.is_ok() else r)
        except Exception as e:  # noqa
            print("exception", type(e).__name__, e)
    finally:
        shutil.rmtree(td, ignore_errors=True)
    print("expected:", doc["expected"])
    return 0
