"""C10: code generation is gated by verification: rejected schemas write nothing; accepted
schemas write exactly what the plug-in returned."""

from __future__ import annotations

import hashlib
import io
import contextlib
import os
import shutil
import subprocess
import tempfile

from .. import common
from ..common import Stats, Run, pmap, chunks, fork_histories

GENERATORS = ("dbc", "can_c", "cpp", "nop", "fcpmcstub")

# the stub plug-in fcp_fcpmcstub (fcpmc/stubs): nested output paths, a 'field' check, an uncategorized check
import sys as _sys

_STUBS = os.path.join(os.path.dirname(os.path.dirname(os.path.abspath(__file__))), "stubs")
if _STUBS not in _sys.path:
    _sys.path.insert(0, _STUBS)

GOOD = {
    "can1": 'version: "3"\nenum E { a = 0, b = 2, }\nstruct A { x @0: u8, y @1: i16, e @2: E, }\nstruct B { p @0: u32, q @1: [u8, 2], }\nimpl can for A { id: 10, device: "ecu", period: 5, }\nimpl can for B { id: 11, device: "ecu", bus: "bus2", }\n',
    # two enums: the C plug-in returns global_can.h once per enum, with the same contents each time
    "enums2": 'version: "3"\nenum E { a = 0, b = 2, }\nenum F { p = 0, q = 1, }\nstruct A { x @0: u8, e @1: E, f @2: F, }\nimpl can for A { id: 10, device: "ecu", }\n',
    "svc": 'version: "3"\nstruct A { x @0: u8, }\nstruct R { y @0: u16, }\nimpl can for A { id: 1, device: "ecu", }\nservice Svc @0 { method get(A) @0 returns R, }\ndevice ecu { services: [Svc], }\n',
}

BAD = {
    "dup-type-first": 'version: "3"\nstruct A { x @0: u8, }\nstruct A { y @0: u8, }\nstruct B { z @0: u8, }\nimpl can for B { id: 1, device: "ecu", }\n',
    "dup-type-last": 'version: "3"\nstruct B { z @0: u8, }\nimpl can for B { id: 1, device: "ecu", }\nstruct A { x @0: u8, }\nenum A { k = 0, }\n',
    "dup-impl": 'version: "3"\nstruct A { x @0: u8, }\nimpl can for A { id: 1, device: "ecu", }\nstruct B { z @0: u8, }\nimpl can for A { id: 2, device: "ecu", }\n',
    "dup-field-middle": 'version: "3"\nstruct A { x @0: u8, }\nstruct B { z @0: u8, z @1: u8, }\nstruct C { w @0: u8, }\nimpl can for A { id: 1, device: "ecu", }\n',
    "dup-enumerator-name": 'version: "3"\nstruct A { x @0: u8, }\nimpl can for A { id: 1, device: "ecu", }\nenum E { a = 0, a = 1, }\n',
    "dup-enumerator-value": 'version: "3"\nenum E { a = 0, b = 0, }\nstruct A { x @0: u8, }\nimpl can for A { id: 1, device: "ecu", }\n',
    "device-unknown-service-after-a-device-without-services": 'version: "3"\nstruct A { x @0: u8, }\nimpl can for A { id: 1, device: "ecu", }\nservice Svc @0 { method m(A) @0 returns A, }\ndevice dash { node: 3, }\ndevice ecu { services: [Svc], }\ndevice bms { services: [Svc, Nope], }\n',
    "device-unknown-service": 'version: "3"\nstruct A { x @0: u8, }\nimpl can for A { id: 1, device: "ecu", }\ndevice ecu { services: [Nope], }\n',
}
BAD_PLUGIN = {
    "dbc": {"dup-can-id": 'version: "3"\nstruct A { x @0: u8, }\nstruct B { z @0: u8, }\nimpl can for A { id: 1, device: "ecu", }\nimpl can for B { id: 1, device: "ecu", }\n', "unknown-struct": 'version: "3"\nstruct A { x @0: u8, }\nimpl can for A { id: 1, }\nimpl can for Zz { id: 2, }\n'},
    "fcpmcstub": {"forbidden-field-last": 'version: "3"\nstruct A { x @0: u8, }\nstruct B { y @0: u8, forbidden @1: u8, }\n', "forbidden-field-first": 'version: "3"\nstruct A { forbidden @0: u8, z @1: u8, }\nstruct B { y @0: u8, }\n', "no-structs": 'version: "3"\nenum E { a = 0, }\n'},
    "can_c": {"over-64": 'version: "3"\nstruct A { x @0: u8, }\nstruct W { a @0: u64, b @1: u1, }\nimpl can for A { id: 1, device: "ecu", }\nimpl can for W { id: 2, device: "ecu", }\n', "unknown-struct": 'version: "3"\nstruct A { x @0: u8, }\nimpl can for A { id: 1, }\nimpl can for Zz { id: 2, }\n'},
}

# accepted schemas for which the plug-in returns one path twice (names that coincide after its own case conversion):
# 'exactly the returned files with exactly the returned contents' cannot be honoured, the only consistent outcome is a refusal
DUP_PATHS = {
    "can_c": ("devices-equal-in-snake-case", 'version: "3"\nstruct M { a @0: u8, }\nstruct N { c @0: u16, }\nimpl can for M { id: 5, device: "Ecu", }\nimpl can for N { id: 6, device: "ecu", }\n'),
    "cpp": ("services-equal-in-snake-case", 'version: "3"\nstruct A { x @0: u8, }\nservice FooBar @0 { method get(A) @0 returns A, }\nservice foo_bar @1 { method get(A) @0 returns A, }\n'),
}

DIR_STATES = ("empty", "stale-output", "unrelated", "stale-h", "subdir", "missing", "missing-nested", "same-but-lf", "same-size-garbage", "same-but-one-byte")


def make_dir_state(root, state, future_names):
    out = os.path.join(root, "out")
    if state == "missing":
        return out
    if state == "missing-nested":
        return os.path.join(out, "gen", "code")  # neither the directory nor its parents exist
    os.makedirs(out)
    if state == "stale-output":
        for n in future_names[:2] or ["default.fcp"]:
            os.makedirs(os.path.dirname(os.path.join(out, n)), exist_ok=True)
            with open(os.path.join(out, n), "w") as f:
                f.write("STALE " + n + "\n" + "/* stale tail that is longer than any generated file */\n" * 20000)
    elif state == "same-but-lf":
        # an earlier output that differs from the new one only in its line terminators
        for n, text in (future_names if isinstance(future_names, dict) else {}).items():
            p = os.path.join(out, n)
            os.makedirs(os.path.dirname(p), exist_ok=True)
            with open(p, "w", newline="") as f:
                f.write(text.replace("\r\n", "\n") if "\r\n" in text else text.replace("\n", "\r\n"))
    elif state in ("same-size-garbage", "same-but-one-byte"):
        # an earlier output of exactly the size of the new one: other bytes throughout, or one other byte in the middle
        for n, text in (future_names if isinstance(future_names, dict) else {}).items():
            p = os.path.join(out, n)
            os.makedirs(os.path.dirname(p), exist_ok=True)
            raw = bytearray(text.encode("utf-8"))
            if state == "same-size-garbage":
                raw = bytearray(b"#" * len(raw))
            elif raw:
                k = len(raw) // 2
                raw[k] = ord("#") if raw[k] != ord("#") else ord("%")
            with open(p, "wb") as f:
                f.write(bytes(raw))
    elif state == "unrelated":
        with open(os.path.join(out, "notes.txt"), "w") as f:
            f.write("keep me\n")
    elif state == "stale-h":
        for n in ("old_can.h", "old_can.c"):
            with open(os.path.join(out, n), "w") as f:
                f.write("/* stale */\n")
    elif state == "subdir":
        os.makedirs(os.path.join(out, "sub"))
        with open(os.path.join(out, "sub", "x.h"), "w") as f:
            f.write("sub\n")
    return out


def snapshot(path):
    snap = {}
    if not os.path.exists(path):
        return {"<missing>": True}
    for root, dirs, files in os.walk(path):
        rel = os.path.relpath(root, path)
        snap["dir:" + rel] = True
        for fn in files:
            p = os.path.join(root, fn)
            with open(p, "rb") as f:
                snap[os.path.normpath(os.path.join(rel, fn))] = hashlib.sha256(f.read()).hexdigest()
    return snap


def mask(text):
    return "\n".join(l for l in str(text).split("\n") if not l.startswith("// Generated using fcp"))


def expected_files(gen_name, fcp_text, scratch):
    """What the plug-in's own generate() returns for this schema: {relpath: masked contents}."""
    import importlib
    from fcp.parser import get_fcp_from_string
    from fcp.error import Logger

    fcp = get_fcp_from_string(fcp_text, Logger({})).unwrap()
    out = os.path.join(scratch, "expected-out")
    with contextlib.redirect_stdout(io.StringIO()):
        results = importlib.import_module("fcp_" + gen_name).Generator().generate(fcp, {"output": out, "templates": {}, "skels": {}})
    files = {}
    for r in results:
        if r.get("type") == "file":
            files[os.path.normpath(os.path.relpath(str(r["path"]), out))] = mask(r["contents"])
    shutil.rmtree(out, ignore_errors=True)
    return files


def raw_files(gen_name, fcp_text, scratch):
    """{relpath: exact contents} returned by the plug-in (unmasked)."""
    import importlib
    from fcp.parser import get_fcp_from_string
    from fcp.error import Logger

    fcp = get_fcp_from_string(fcp_text, Logger({})).unwrap()
    out = os.path.join(scratch, "raw-out")
    with contextlib.redirect_stdout(io.StringIO()):
        results = importlib.import_module("fcp_" + gen_name).Generator().generate(fcp, {"output": out, "templates": {}, "skels": {}})
    shutil.rmtree(out, ignore_errors=True)
    return {os.path.normpath(os.path.relpath(str(r["path"]), out)): str(r["contents"]) for r in results if r.get("type") == "file"}


class FaultVerifier:
    """Built lazily (needs fcp imported): a Verifier whose k-th check evaluation fails."""


def make_fault_verifier(fail_at):
    from fcp.verifier import Verifier, make_general_verifier
    from fcp.error import error

    class FV(Verifier):
        """Counts every check evaluation and fails the fail_at-th.  The counters live in one dict so that a
        shallow copy of the verifier (GeneratorManager works on a per-call copy) keeps counting in the same place."""

        def __init__(self):
            super().__init__()
            self.shared = {"evals": 0, "fired": None}
            self.fail_at = fail_at

        evals = property(lambda self: self.shared["evals"])
        fired = property(lambda self: self.shared["fired"])

        def register(self, function, category=None):
            shared, fail = self.shared, self.fail_at

            def wrapped(a, b, node):
                k = shared["evals"]
                shared["evals"] += 1
                if fail is not None and k == fail:
                    shared["fired"] = (getattr(function, "__name__", "?"), category)
                    return error("injected fault at evaluation %d" % k)
                return function(a, b, node)

            wrapped.__name__ = getattr(function, "__name__", "wrapped")
            return super().register(wrapped, category)

    fv = FV()
    gv = make_general_verifier()
    for cat, checks in gv.checks.items():
        for c in checks:
            fv.register(c, None if cat == "uncategorized" else cat)
    # one more (always passing) check at the END of every category, as any plug-in may register:
    # every registered check must see every node of its category, whatever its position
    fv.extra_seen = {}
    for cat in fv.categories:

        def extra(a, b, node, _cat=cat):
            fv.extra_seen[_cat] = fv.extra_seen.get(_cat, 0) + 1
            from fcp.result import Ok

            return Ok(())

        extra.__name__ = "fcpmc_extra_" + cat
        # 'uncategorized' is what register() files a check under when no category is given (the documented default)
        fv.register(extra, None if cat == "uncategorized" else cat)
    return fv


def _returned_paths(gen_name, fcp_text, scratch):
    import importlib
    from fcp.parser import get_fcp_from_string
    from fcp.error import Logger

    fcp = get_fcp_from_string(fcp_text, Logger({})).unwrap()
    out = os.path.join(scratch, "dup-out")
    with contextlib.redirect_stdout(io.StringIO()):
        results = importlib.import_module("fcp_" + gen_name).Generator().generate(fcp, {"output": out, "templates": {}, "skels": {}})
    shutil.rmtree(out, ignore_errors=True)
    # one entry per DISTINCT (path, contents): a path returned twice with the same contents is one file
    return [p for p, _c in sorted({(os.path.normpath(str(r["path"])), str(r["contents"])) for r in results if r.get("type") == "file"})]


def run_generate(gen_name, fcp_text, out, verifier):
    from fcp.codegen import GeneratorManager
    from fcp.parser import get_fcp_from_string
    from fcp.error import Logger

    fcp = get_fcp_from_string(fcp_text, Logger({})).unwrap()
    buf = io.StringIO()
    try:
        with contextlib.redirect_stdout(buf):
            r = GeneratorManager(verifier).generate(gen_name, None, None, fcp, out)
    except SystemExit as e:
        return "sysexit", str(e)
    except Exception as e:  # noqa
        return "exception:" + type(e).__name__, str(e)[:200]
    if hasattr(r, "is_err") and r.is_err():
        return "err", repr(r.err())[:200]
    if hasattr(r, "is_ok") and r.is_ok():
        return "ok", None
    return "other:" + type(r).__name__, repr(r)[:100]


def judge_accept(S, inp, gen_name, fcp_text, before, out, scratch, verdict, detail, tag):
    after = snapshot(out)
    exp = expected_files(gen_name, fcp_text, scratch)
    if verdict != "ok":
        S.violation("C10.accept", "C10.accept/valid-schema-not-generated/%s/%s" % (gen_name, verdict), inp, expected="Ok and files written", actual={"verdict": verdict, "detail": detail})
        return
    changed = {k: v for k, v in after.items() if not k.startswith("dir:") and before.get(k) != v}
    got = {}
    for k in changed:
        with open(os.path.join(out, k), "r", errors="replace", newline="") as f:
            got[k] = mask(f.read())
    # a stale file whose new content equals the old one would not show as changed: compare all expected
    for k in exp:
        p = os.path.join(out, k)
        if os.path.exists(p):
            with open(p, "r", errors="replace", newline="") as f:
                got[k] = mask(f.read())
    if set(got) != set(exp):
        S.violation("C10.accept", "C10.accept/written-file-set-differs/%s/%s" % (gen_name, tag), inp, expected=sorted(exp), actual=sorted(got))
    else:
        bad = [k for k in exp if exp[k] != got[k]]
        if bad:
            S.violation("C10.accept", "C10.accept/written-contents-differ/%s/%s" % (gen_name, tag), inp, expected={k: exp[k][:300] for k in bad[:2]}, actual={k: got[k][:300] for k in bad[:2]})
    wanted_dirs = set()
    for k in exp:
        d = os.path.dirname(k)
        while d:
            wanted_dirs.add("dir:" + os.path.normpath(d))
            d = os.path.dirname(d)
    newdirs = [k for k in after if k.startswith("dir:") and k not in before and before.get("<missing>") is None and k not in wanted_dirs]
    if newdirs:
        S.violation("C10.accept", "C10.accept/unexpected-directory/%s" % gen_name, inp, expected="no new directories", actual=newdirs)


def judge_reject(S, inp, gen_name, before, out, verdict, detail, tag):
    after = snapshot(out)
    if verdict == "ok" or verdict.startswith("other"):
        S.violation("C10.gate", "C10.gate/no-error-reported/%s/%s" % (gen_name, tag), inp, expected="error value", actual={"verdict": verdict, "detail": detail})
    if after != before:
        diff = {"created": sorted(set(after) - set(before)), "deleted": sorted(set(before) - set(after)), "modified": sorted(k for k in after if k in before and after[k] != before[k])}
        S.violation("C10.gate", "C10.gate/output-directory-touched/%s/%s" % (gen_name, tag), inp, expected="directory unchanged", actual=diff)


def make_worker(tier):
    def work(chunk):
        S = Stats()
        for kind, gen_name, sname, text, dstate, k in chunk:
            root = tempfile.mkdtemp(prefix="fcpmc-c10-")
            try:
                future = sorted(expected_files(gen_name, GOOD["can1"], root))
                if dstate in ("same-but-lf", "same-size-garbage", "same-but-one-byte"):
                    future = raw_files(gen_name, text, root)
                out = make_dir_state(root, dstate, future)
                before = snapshot(out)
                inp = {"generator": gen_name, "schema": sname, "text": text, "dir_state": dstate, "ops": (["fail_eval=%d" % k] if k is not None else [])}
                S.count("states")
                S.count("transitions")
                S.count("executions")
                S.add("nontrivial", (gen_name, sname, dstate, k))
                fv = make_fault_verifier(k)
                verdict, detail = run_generate(gen_name, text, out, fv)
                S.add("outcomes", (kind, verdict.split(":")[0]))
                if kind == "accept":
                    judge_accept(S, inp, gen_name, text, before, out, root, verdict, detail, dstate)
                    # every check of a category is evaluated on every node of that category
                    from fcp.parser import get_fcp_from_string as _p
                    from fcp.error import Logger as _L

                    tree = _p(text, _L({})).unwrap()
                    for cat, seen in sorted(fv.extra_seen.items()):
                        want = 1 if cat == "uncategorized" else len(list(tree.get(cat).unwrap()))
                        if seen != want:
                            S.violation("C10.gate", "C10.gate/registered-check-not-run-on-every-node/%s" % cat, inp, expected={"category": cat, "nodes": want}, actual={"evaluations_of_the_last_check": seen})
                    for cat in fv.categories:
                        nodes = 1 if cat == "uncategorized" else len(list(tree.get(cat).unwrap()))
                        if cat not in fv.extra_seen and nodes:
                            S.violation("C10.gate", "C10.gate/registered-check-not-run-on-every-node/%s" % cat, inp, expected={"category": cat, "nodes": nodes}, actual={"evaluations_of_the_last_check": 0})
                elif kind == "fault":
                    if fv.fired is None:
                        S.violation("harness", "harness/fault-point-not-reached", inp, actual={"evals": fv.evals, "k": k})
                    else:
                        inp["fault_in"] = list(map(str, fv.fired))
                        judge_reject(S, inp, gen_name, before, out, verdict, detail, "injected:" + str(fv.fired[1]))
                elif kind == "dup-paths":
                    after = snapshot(out)
                    returned = [r for r in _returned_paths(gen_name, text, root)]
                    if len(set(returned)) == len(returned):
                        pass  # the plug-in no longer returns a path twice: nothing to judge here
                    elif verdict == "ok":
                        S.violation("C10.accept", "C10.accept/one-path-returned-twice-and-silently-overwritten/%s" % gen_name, inp, expected="a refusal: %d results for %d paths" % (len(returned), len(set(returned))), actual={"verdict": verdict, "written": sorted(k for k in after if not k.startswith("dir:"))})
                    elif any(not k.startswith("dir:") for k in after if k not in before):
                        S.violation("C10.gate", "C10.gate/output-directory-touched/%s/dup-paths" % gen_name, inp, expected="nothing written", actual=sorted(set(after) - set(before)))
                else:
                    judge_reject(S, inp, gen_name, before, out, verdict, detail, "rule:" + sname)
                if len(S.samples) < 1:
                    S.sample(inp)
            finally:
                shutil.rmtree(root, ignore_errors=True)
        return S

    return work


def count_evals(gen_name, text):
    root = tempfile.mkdtemp(prefix="fcpmc-c10-")
    try:
        fv = make_fault_verifier(None)
        out = make_dir_state(root, "empty", [])
        v, d = run_generate(gen_name, text, out, fv)
        return fv.evals, v, d
    finally:
        shutil.rmtree(root, ignore_errors=True)


def run_histories(S, tier):
    """Two (thorough: three) generate calls on one GeneratorManager, explored by fork-snapshot;
    the output directory is copied per branch because fork does not snapshot the file system."""
    from fcp.codegen import GeneratorManager
    from fcp.verifier import make_general_verifier
    from fcp.parser import get_fcp_from_string
    from fcp.error import Logger

    depth = 2 if tier == "quick" else 3
    texts = {"good": GOOD["can1"], "bad": BAD["dup-field-middle"], "good2": GOOD["svc"]}
    texts["dupid"] = BAD_PLUGIN["dbc"]["dup-can-id"]
    ops = [(g, s) for g in ("dbc", "can_c", "cpp") for s in ("good", "bad")] + [("can_c", "good2"), ("nop", "dupid"), ("dbc", "dupid"), ("nop", "good")]
    # the schema objects are parsed ONCE and shared by every call of a history (a verdict cached per object would show)
    parsed = {k: get_fcp_from_string(t, Logger({})).unwrap() for k, t in texts.items()}
    root = tempfile.mkdtemp(prefix="fcpmc-c10h-")
    try:
        live = {"mgr": GeneratorManager(make_general_verifier()), "dir": make_dir_state(os.path.join(root, "d0") if os.makedirs(os.path.join(root, "d0")) is None else root, "unrelated", [])}

        def apply_op(op, hist):
            gen_name, sname = op
            new = tempfile.mkdtemp(prefix="h-", dir=root)
            out = os.path.join(new, "out")
            shutil.copytree(live["dir"], out)
            live["dir"] = out
            before = snapshot(out)
            fcp = parsed[sname]
            try:
                with contextlib.redirect_stdout(io.StringIO()):
                    r = live["mgr"].generate(gen_name, None, None, fcp, out)
                verdict = "ok" if r.is_ok() else "err"
            except Exception as e:  # noqa
                verdict = "exception:" + type(e).__name__
            after = snapshot(out)
            res = {"verdict": verdict, "touched": after != before}
            if sname not in ("bad", "dupid") and verdict == "ok":
                exp = expected_files(gen_name, texts[sname], new)
                got = {}
                for k in exp:
                    p = os.path.join(out, k)
                    if os.path.exists(p):
                        got[k] = mask(open(p, errors="replace", newline="").read())
                res["files_ok"] = got == exp
                res["extra_new"] = sorted(k for k in after if not k.startswith("dir:") and k not in before and k not in exp)
            return res

        for hist, o in fork_histories(ops, depth, apply_op):
            S.count("states")
            S.count("transitions")
            S.count("executions")
            S.count("histories")
            S.add("nontrivial", ("hist", hist))
            inp = {"ops": ["gen:%s:%s" % h for h in hist], "texts": texts}
            if "verdict" not in o:
                S.violation("harness", "harness/history-child-failed", inp, actual=o)
                continue
            g, s = hist[-1]
            S.add("outcomes", ("hist", s, o["verdict"].split(":")[0]))
            rejected = s == "bad" or (s == "dupid" and g == "dbc")
            if s == "dupid" and not rejected:
                # duplicate CAN ids are only a DBC plug-in rule: another generator accepts the schema, whatever this manager generated before
                if o["verdict"] != "ok":
                    S.violation("C10.accept", "C10.accept/valid-schema-not-generated/%s/history:%s" % (g, o["verdict"]), inp, expected="ok", actual=o)
                continue
            if rejected:
                if o["verdict"] == "ok":
                    S.violation("C10.gate", "C10.gate/no-error-reported/%s/history" % g, inp, expected="error", actual=o)
                if o["touched"]:
                    S.violation("C10.gate", "C10.gate/output-directory-touched/%s/history" % g, inp, expected="unchanged", actual=o)
            else:
                if o["verdict"] != "ok":
                    S.violation("C10.accept", "C10.accept/valid-schema-not-generated/%s/history:%s" % (g, o["verdict"]), inp, expected="ok", actual=o)
                elif not o.get("files_ok") or o.get("extra_new"):
                    S.violation("C10.accept", "C10.accept/written-files-differ/%s/history" % g, inp, expected="exactly the returned files", actual=o)
    finally:
        shutil.rmtree(root, ignore_errors=True)


def run_same_dir_histories(S, tier):
    """Every sequence (length <= 2, thorough 3) of generations into ONE output directory at ONE path, by one manager in one
    process, with a 'wipe' op (the user deletes the directory's contents) in the alphabet: after each accepted call the
    directory holds exactly the returned files with the returned contents - whatever was written to those paths before."""
    import itertools
    import json
    from fcp.codegen import GeneratorManager
    from fcp.verifier import make_general_verifier
    from fcp.parser import get_fcp_from_string
    from fcp.error import Logger

    texts = {"good": GOOD["can1"], "good2": GOOD["svc"], "enums2": GOOD["enums2"]}
    ops = [("dbc", "good"), ("dbc", "good2"), ("can_c", "good"), ("can_c", "enums2"), ("cpp", "good"), ("cpp", "good2"), ("wipe", "")]
    depth = 2 if tier == "quick" else 3
    root = tempfile.mkdtemp(prefix="fcpmc-c10s-")
    out = os.path.join(root, "out")
    try:
        want = {}
        for g, sn in ops:
            if g != "wipe":
                want[(g, sn)] = expected_files(g, texts[sn], root)
        seqs = [q for n in range(1, depth + 1) for q in itertools.product(ops, repeat=n) if q[-1][0] != "wipe" and q[0][0] != "wipe"]
        for seq in seqs:
            S.count("states")
            S.count("executions")
            S.count("histories")
            S.add("nontrivial", ("same-dir", seq))
            shutil.rmtree(out, ignore_errors=True)
            os.makedirs(out)
            rd, wr = os.pipe()
            pid = os.fork()
            if pid == 0:
                res = {"bad": None}
                try:
                    os.close(rd)
                    mgr = GeneratorManager(make_general_verifier())
                    for k, (g, sn) in enumerate(seq):
                        if g == "wipe":
                            for fn in os.listdir(out):
                                pth = os.path.join(out, fn)
                                shutil.rmtree(pth) if os.path.isdir(pth) else os.remove(pth)
                            continue
                        with contextlib.redirect_stdout(io.StringIO()):
                            r = mgr.generate(g, None, None, get_fcp_from_string(texts[sn], Logger({})).unwrap(), out)
                        if not r.is_ok():
                            res["bad"] = {"step": k, "verdict": "err"}
                            break
                        got = {}
                        for fn in want[(g, sn)]:
                            pth = os.path.join(out, fn)
                            if os.path.exists(pth):
                                got[fn] = mask(open(pth, errors="replace", newline="").read())
                        if got != want[(g, sn)]:
                            res["bad"] = {"step": k, "missing": sorted(set(want[(g, sn)]) - set(got)), "differing": sorted(fn for fn in got if got[fn] != want[(g, sn)][fn])}
                            break
                except Exception as e:  # noqa
                    res["bad"] = {"exception": "%s: %s" % (type(e).__name__, str(e)[:200])}
                finally:
                    try:
                        os.write(wr, json.dumps(res).encode())
                    finally:
                        os._exit(0)
            os.close(wr)
            buf = b""
            while True:
                c = os.read(rd, 65536)
                if not c:
                    break
                buf += c
            os.close(rd)
            os.waitpid(pid, 0)
            res = json.loads(buf.decode() or '{"bad": {"exception": "child died"}}')
            S.count("transitions", len(seq))
            if res["bad"] is None:
                S.add("outcomes", ("same-dir", "ok"))
            else:
                S.add("outcomes", ("same-dir", "differs"))
                S.violation("C10.accept", "C10.accept/written-files-differ/%s/after-earlier-generations-into-the-same-directory" % seq[-1][0] if res["bad"].get("step") == len(seq) - 1 else "C10.accept/written-files-differ/%s/same-directory-history" % seq[res["bad"].get("step", 0)][0], {"ops": ["%s:%s" % o for o in seq], "texts": texts}, expected="exactly the returned files after every accepted call", actual=res["bad"])
    finally:
        shutil.rmtree(root, ignore_errors=True)


def run_cli(S, tier):
    for gen_name in ("dbc", "can_c"):
        for sname, text, reject in (("can1", GOOD["can1"], False), ("dup-field-middle", BAD["dup-field-middle"], True), ("plugin", list(BAD_PLUGIN[gen_name].values())[0], True), ("syntax", 'version: "3"\nstruct A { x @0 u8, }\n', True)):
            root = tempfile.mkdtemp(prefix="fcpmc-c10c-")
            try:
                out = make_dir_state(root, "unrelated", [])
                src = os.path.join(root, "main.fcp")
                open(src, "w").write(text)
                before = snapshot(out)
                p = subprocess.run([common.PYTHON, "-m", "fcp", "generate", gen_name, src, out], env=common.subprocess_env(), stdout=subprocess.PIPE, stderr=subprocess.PIPE, text=True, timeout=120)
                S.count("states")
                S.count("transitions")
                S.count("executions")
                S.add("nontrivial", ("cli", gen_name, sname))
                inp = {"cli": ["python", "-m", "fcp", "generate", gen_name, "main.fcp", "out"], "text": text, "generator": gen_name}
                reported = ("Error" in p.stdout) or p.returncode != 0
                S.add("outcomes", ("cli", reject, reported))
                if reject:
                    judge_reject(S, inp, gen_name, before, out, "err" if reported else "ok", (p.stdout + p.stderr)[-300:], "cli:" + sname)
                    if p.returncode == 0:
                        # what a Makefile or CI step sees of 'reports an error' is the exit status
                        S.violation("C10.gate", "C10.gate/rejection-with-exit-status-0/%s" % gen_name, inp, expected="non-zero exit status", actual={"returncode": 0, "stdout_tail": p.stdout[-200:]})
                elif p.returncode != 0:
                    S.violation("C10.accept", "C10.accept/valid-schema-exit-status/%s" % gen_name, inp, expected="exit status 0", actual={"returncode": p.returncode, "tail": (p.stdout + p.stderr)[-300:]})
                else:
                    judge_accept(S, inp, gen_name, text, before, out, root, "ok" if not reported else "err", (p.stdout + p.stderr)[-300:], "cli")
            finally:
                shutil.rmtree(root, ignore_errors=True)


def run(tier):
    common.bind_repo()
    r = Run("C10", tier)
    items = []
    dstates = DIR_STATES if tier != "quick" else ("empty", "stale-output", "stale-h", "subdir")
    for g in GENERATORS:
        for sname, text in GOOD.items():
            n, v, d = count_evals(g, text)
            if v != "ok":
                r.stats.violation("C10.accept", "C10.accept/valid-schema-not-generated/%s/%s" % (g, v), {"generator": g, "text": text}, expected="ok", actual={"verdict": v, "detail": d})
                continue
            for ds in DIR_STATES:
                items.append(("accept", g, sname, text, ds, None))
            for k in range(n):
                for ds in dstates if sname == "can1" else ("stale-output",):
                    items.append(("fault", g, sname, text, ds, k))
        if g in DUP_PATHS:
            items.append(("dup-paths", g, DUP_PATHS[g][0], DUP_PATHS[g][1], "empty", None))
        bad = dict(BAD)
        bad.update(BAD_PLUGIN.get(g, {}))
        for sname, text in bad.items():
            for ds in ("empty", "stale-output", "stale-h"):
                items.append(("rule", g, sname, text, ds, None))
    r.bounds = {"cases": len(items), "generators": list(GENERATORS), "dir_states": list(DIR_STATES), "history_depth": 2 if tier == "quick" else 3}
    for s in pmap(make_worker(tier), chunks(items, 12)):
        r.stats.merge(s)
    run_histories(r.stats, tier)
    run_same_dir_histories(r.stats, tier)
    run_cli(r.stats, tier)
    r.rule = (
        "states = (generator, schema, pre-existing output directory state, fault point): for each generator and well-formed schema EVERY check evaluation of the verification run (general and plug-in, "
        "wrapped through Verifier.register) is made to fail in turn; plus one schema per well-formedness rule violated at first/middle/last position and per plug-in rule; plus accepted runs compared "
        "with the plug-in's own generate() output; plus every history of generate calls on one GeneratorManager up to the bound (fork-snapshot, directory copied per branch); plus the CLI. "
        "oracle = recursive directory snapshot (names + sha256) equality on reject; written set == returned set on accept. all cases non-trivial."
    )
    r.assumptions = ["an exception out of generate counts as an error report", "files deleted by a plug-in's own generate() on an accepted schema are not judged", "the stamp line '// Generated using fcp' is masked"]
    return r.finish()


def replay(doc):
    common.bind_repo()
    inp = doc["input"]
    root = tempfile.mkdtemp(prefix="fcpmc-replay-")
    try:
        out = make_dir_state(root, inp.get("dir_state", "empty"), [])
        k = None
        for op in inp.get("ops", []):
            if op.startswith("fail_eval="):
                k = int(op.split("=")[1])
        before = snapshot(out)
        print("generate ->", run_generate(inp["generator"], inp["text"], out, make_fault_verifier(k)))
        after = snapshot(out)
        print("directory changed:", before != after, sorted(set(after) ^ set(before)))
    finally:
        shutil.rmtree(root, ignore_errors=True)
    print("expected:", doc["expected"])
    return 0
