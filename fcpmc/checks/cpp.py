"""C03 (generated C++ static codec) and C13 (run-time schema loaded from reflection vs the
static codec), sharing one build per batch of enumerated structs."""

from __future__ import annotations

import itertools
import struct as _struct

from .. import common, refcodec, shapes, cppbuild
from ..schema import U, I, F32, F64, STR, Arr, Dyn, Opt, St, enum_with_max, schema_for_structs, print_schema, type_str
from ..common import Stats, Run, pmap, chunks
from .codec import class_skeleton

BATCH = 96


def cpp_leaves(widths, beyond_i32=True):
    out = []
    for w in widths:
        out += [U(w), I(w)]
    out += [F32, F64, STR]
    out += shapes.enum_leaves(bits=(1, 2, 3, 4, 5, 6, 7, 8))
    out += [enum_with_max(256), enum_with_max(511), enum_with_max(65535)]
    # both sides of the i32 the reflection record keeps enumerator values in, and the 64-bit carrier
    out += [enum_with_max((1 << 31) - 1)]
    if beyond_i32:
        # C03 only: the reflection record cannot carry these (open C12 finding), so the run-time schema of C13 never sees them
        out += [enum_with_max(1 << 31), enum_with_max((1 << 32) - 1), enum_with_max((1 << 49) - 1), enum_with_max(1 << 63)]
    out += [St(U(3)), St(I(5), F32), shapes.OOO, ("st", (("a", 2, U(8)), ("b", 0, U(8)), ("c", 1, U(8))))]
    return out


def build_space(tier, prop="C03"):
    widths = shapes.W_QUICK if tier == "quick" else shapes.W_THOROUGH
    offsets = (0, 3) if tier == "quick" else (0, 1, 3, 4, 7)
    trees = []
    seen = set()
    transitions = 0
    for leaves, depth in ((cpp_leaves(widths, beyond_i32=(prop == "C03")), 1), (shapes.REP12, 2), ((shapes.REP4 if tier != "quick" else []), 3)):
        if not leaves:
            continue
        ts, tr = shapes.type_trees(leaves, depth)
        transitions += tr
        for t in ts:
            if t not in seen:
                seen.add(t)
                trees.append(t)
    structs = []
    for t in trees:
        for s in shapes.contexts(t, offsets, tails=(True,)):
            transitions += 1
            structs.append(s)
        if shapes.type_depth(t) == 0:
            # leaf shapes also as the LAST field (byte-aligned and at offset 3): padding after it must stay zero
            for s in shapes.contexts(t, (0, 3), tails=(False,)):
                transitions += 1
                structs.append(s)
    for s in shapes.field_sequences(shapes.REP12, 2):
        transitions += 1
        structs.append(s)
    if tier != "quick":
        for s in shapes.field_sequences(shapes.REP6, 3, minlen=3):
            transitions += 1
            structs.append(s)
    return structs, transitions, {"widths": "1..64" if len(widths) == 64 else list(widths), "offsets": list(offsets), "type_trees": len(trees), "struct_states": len(structs)}


def shape_class(st):
    return ",".join("%s:%s" % (f[0].rstrip("0123456789"), class_skeleton(f[2])) for f in st[1])


def coarse(st):
    """Feature class used in class keys: which constructs the struct contains."""
    feats = set()

    def walk(t, outer=None):
        k = t[0]
        if k == "arr":
            feats.add("arr-of-" + ("container" if t[1][0] in ("arr", "dyn", "opt") else "str" if t[1][0] == "str" else "scalar-or-struct"))
            walk(t[1], "arr")
        elif k in ("dyn", "opt"):
            feats.add(k)
            if k == "opt" and t[1][0] in ("dyn", "str", "arr"):
                feats.add("opt-of-container")
            walk(t[1], k)
        elif k == "st":
            feats.add("nested")
            for f in t[1]:
                walk(f[2])
        elif k == "en":
            m = max(v for _, v in t[1])
            feats.add("enum>=2^31" if m >= (1 << 31) else "enum>255" if m > 255 else "enum")
        elif k in ("u", "i"):
            feats.add("int")
            if k == "i":
                feats.add("signed")
        else:
            feats.add(k)

    for f in st[1]:
        walk(f[2])
    return "+".join(sorted(feats))


def to_json_value(t, v, dynamic):
    """Python value -> JSON request value (enums: numbers for the static codec, names for the dynamic one)."""
    k = t[0]
    if k == "en":
        if dynamic:
            return [n for n, x in t[1] if x == v][0]
        return v
    if k == "st":
        return {f[0]: to_json_value(f[2], v[f[0]], dynamic) for f in t[1]}
    if k in ("arr", "dyn"):
        return [to_json_value(t[1], x, dynamic) for x in v]
    if k == "opt":
        return None if v is None else to_json_value(t[1], v, dynamic)
    return v


def from_json_value(t, j, dynamic):
    """JSON answer -> Python value in the reference representation; raises ValueError on shape mismatch."""
    k = t[0]
    if k == "en":
        if dynamic:
            m = [x for n, x in t[1] if n == j]
            if len(m) != 1:
                raise ValueError("enumerator %r" % (j,))
            return m[0]
        if not isinstance(j, int):
            raise ValueError("enum %r" % (j,))
        return j
    if k == "st":
        if not isinstance(j, dict) or set(j) != {f[0] for f in t[1]}:
            raise ValueError("struct keys %r" % (j if not isinstance(j, dict) else sorted(j),))
        return {f[0]: from_json_value(f[2], j[f[0]], dynamic) for f in t[1]}
    if k in ("arr", "dyn"):
        if not isinstance(j, list):
            raise ValueError("%s decoded as %r" % (k, j))
        return [from_json_value(t[1], x, dynamic) for x in j]
    if k == "opt":
        return None if j is None else from_json_value(t[1], j, dynamic)
    if k in ("u", "i"):
        if not isinstance(j, int) or isinstance(j, bool):
            raise ValueError("int %r" % (j,))
        return j
    if k == "f32":
        if not isinstance(j, (int, float)):
            raise ValueError("float %r" % (j,))
        return _struct.unpack("<f", _struct.pack("<f", float(j)))[0]
    if k == "f64":
        if not isinstance(j, (int, float)):
            raise ValueError("double %r" % (j,))
        return float(j)
    if k == "str":
        if not isinstance(j, str):
            raise ValueError("str %r" % (j,))
        return j
    raise ValueError(t)


def isolate_compile_failures(named, build_fn, max_builds=24):
    """Bisect a batch whose translation unit does not compile -> (good subsets [(named, exe)],
    bad [(name, st, err)], not_isolated [named]).  A failure that does not depend on the structs
    (every unit fails) is detected first so it is not bisected into thousands of builds."""
    good, bad, unknown = [], [], []
    builds = [0]

    def rec(items):
        if builds[0] >= max_builds:
            unknown.extend(items)
            return
        builds[0] += 1
        exe, err = build_fn(items)
        if exe is not None:
            good.append((items, exe))
            return
        if len(items) == 1:
            bad.append((items[0][0], items[0][1], err))
            return
        mid = len(items) // 2
        rec(items[:mid])
        rec(items[mid:])

    exe, err = build_fn(named)
    builds[0] += 1
    if exe is not None:
        return [(named, exe)], [], []
    if len(named) > 1:
        # global failure? the smallest possible unit of this batch
        exe1, err1 = build_fn(named[:1])
        builds[0] += 1
        if exe1 is None and cppbuild.first_error(err1) == cppbuild.first_error(err):
            exe2, err2 = build_fn(named[-1:])
            builds[0] += 1
            if exe2 is None and cppbuild.first_error(err2) == cppbuild.first_error(err):
                return [], [(named[0][0], named[0][1], err1)], named[1:]
        mid = len(named) // 2
        rec(named[:mid])
        rec(named[mid:])
    else:
        bad.append((named[0][0], named[0][1], err))
    return good, bad, unknown


def make_worker(prop, tier, sanitize=False):
    from fcp.parser import get_fcp_from_string
    from fcp.error import Logger
    from fcp.reflection import get_reflection_schema
    from fcp import serde

    rschema = get_reflection_schema().unwrap()

    def prepare(named):
        decls, _h = schema_for_structs(named)
        text = print_schema(decls)
        fcp = get_fcp_from_string(text, Logger({})).unwrap()
        files = cppbuild.generate_cpp(fcp)
        return decls, text, fcp, files

    def build_fn(named):
        decls, text, fcp, files = prepare(named)
        return cppbuild.build(files, sanitize=sanitize, exclude_headers=("fcp_default.h",) if False else ())

    def work(chunk):
        S = Stats()
        named = [("S%d" % i, s) for i, s in chunk]
        try:
            good, bad, unknown = isolate_compile_failures(named, build_fn)
            if unknown:
                S.count("not_isolated_after_compile_failure", len(unknown))
        except Exception as e:  # noqa  generator raised
            if len(named) > 1:
                for it in chunk:
                    S.merge(work([it]))
                return S
            S.count("states")
            S.count("executions")
            S.violation(prop + ".generate", "%s.generate/exception:%s/%s" % (prop, type(e).__name__, coarse(named[0][1])), {"shape": type_str(named[0][1])}, expected="headers", actual="%s: %s" % (type(e).__name__, str(e)[:200]))
            return S
        for name, st, err in bad:
            S.count("states")
            S.count("executions")
            S.add("outcomes", "compile-error")
            if prop == "C03":
                decls, text, _f, _files = prepare([(name, st)])
                S.violation("C03.compile", "C03.compile/cc-error/%s/%s" % (cppbuild.first_error(err), coarse(st)), {"text": text, "shape": type_str(st)}, expected="compiles as C++17", actual=err[-900:])
            elif any(h in err for h in ("dynamic.h", "reflection.h", "can_dynamic_schema.h")):
                # the run-time codec itself does not build: there is nothing to compare, which is not agreement
                decls, text, _f, _files = prepare([(name, st)])
                S.violation("C13.compile", "C13.compile/run-time-schema-does-not-compile/%s/%s" % (cppbuild.first_error(err), coarse(st)), {"text": text, "shape": type_str(st)}, expected="compiles as C++17", actual=err[-900:])
        for items, exe in good:
            decls, text, fcp, _files = prepare(items)
            env = refcodec.Env(decls)
            refl = None
            if prop == "C13":
                rec = fcp.reflection()
                refl = bytes(serde.encode(rschema, "Fcp", rec))
                if not refcodec.same(serde.decode(rschema, "Fcp", bytearray(refl)), rec):
                    S.count("skipped_reflection_does_not_roundtrip", len(items))
                    continue
            reqs = []
            index = []
            for name, st in items:
                vals = shapes.struct_values(st, json_safe=True, limit=64)
                for v in vals:
                    ref = refcodec.encode(env, name, v)
                    if prop == "C03":
                        reqs.append({"op": "enc", "name": name, "value": to_json_value(st, v, False)})
                        index.append((name, st, v, ref, "enc"))
                        reqs.append({"op": "dec", "name": name, "bytes": list(ref)})
                        index.append((name, st, v, ref, "dec"))
                    else:
                        for op, dyn in (("enc", False), ("dyn_enc", True)):
                            reqs.append({"op": op, "name": name, "value": to_json_value(st, v, dyn)})
                            index.append((name, st, v, ref, op))
                        for op in ("dec", "dyn_dec"):
                            reqs.append({"op": op, "name": name, "bytes": list(ref)})
                            index.append((name, st, v, ref, op))
            answers = cppbuild.run_requests(exe, reqs, refl)
            seen_states = set()
            if prop == "C03":
                for (name, st, v, ref, op), a in zip(index, answers):
                    if name not in seen_states:
                        seen_states.add(name)
                        S.count("states")
                        if len(shapes.struct_values(st, json_safe=True, limit=64)) >= 2:
                            S.add("nontrivial", st)
                    S.count("executions")
                    judge_static(S, text, name, st, v, ref, op, a)
            else:
                for k in range(0, len(index), 4):
                    name, st, v, ref, _ = index[k]
                    if name not in seen_states:
                        seen_states.add(name)
                        S.count("states")
                        S.add("nontrivial", st)
                    S.count("executions", 2)
                    judge_dynamic(S, text, name, st, v, ref, answers[k : k + 4])
            if len(S.samples) < 1:
                S.sample({"struct": type_str(items[-1][1]), "requests": len(reqs), "example_request": reqs[-1], "example_answer": answers[-1]})
        return S

    return work


def judge_static(S, text, name, st, v, ref, op, a):
    inp = {"text": text, "struct": name, "shape": type_str(st), "value": v, "op": op}
    cc = coarse(st)
    if "crash" in a or "garbled" in a:
        S.add("outcomes", "crash")
        S.violation("C03.run", "C03.run/crash/%s" % cc, inp, expected="answer", actual=a)
        return
    if op == "enc":
        if "bytes" in a and bytes(a["bytes"]) == ref:
            S.add("outcomes", "enc-ok:%d" % len(ref))
        else:
            S.add("outcomes", "enc-differs")
            kind = "exception" if "exc" in a else ("unknown-struct" if "null" in a else "bytes-differ")
            S.violation("C03.encode", "C03.encode/%s/%s" % (kind, cc), inp, expected=ref, actual=bytes(a["bytes"]) if "bytes" in a else a)
    else:
        try:
            if "value" not in a:
                raise ValueError("no value: %r" % (a,))
            got = from_json_value(st, a["value"], False)
            ok = refcodec.same(got, v)
            detail = got
        except ValueError as e:
            ok, detail = False, "unreadable answer: %s" % e
        if ok:
            S.add("outcomes", "dec-ok")
        else:
            S.add("outcomes", "dec-differs")
            S.violation("C03.decode", "C03.decode/value-differs/%s" % cc, dict(inp, bytes=ref), expected=v, actual={"decoded": detail, "raw": a})


def judge_dynamic(S, text, name, st, v, ref, ans):
    a_enc, a_denc, a_dec, a_ddec = ans
    inp = {"text": text, "struct": name, "shape": type_str(st), "value": v}
    cc = coarse(st)
    if any("crash" in a or "garbled" in a for a in ans):
        S.add("outcomes", "crash")
        S.violation("C13.run", "C13.run/crash/%s" % cc, inp, expected="answers", actual=ans)
        return
    # encode: dynamic bytes must equal static bytes
    if "bytes" not in a_enc:
        S.count("static_side_failed")  # C03's subject
    elif a_denc.get("bytes") != a_enc["bytes"]:
        S.add("outcomes", "enc-differs")
        kind = "exception" if "exc" in a_denc else ("unknown-struct" if "null" in a_denc else "bytes-differ")
        S.violation("C13.encode", "C13.encode/%s/%s" % (kind, cc), dict(inp, op="dyn_enc"), expected={"static": bytes(a_enc["bytes"])}, actual=bytes(a_denc["bytes"]) if "bytes" in a_denc else a_denc)
    else:
        S.add("outcomes", "enc-same")
    # decode: dynamic value must equal static value up to enumerator naming
    try:
        sv = from_json_value(st, a_dec["value"], False) if "value" in a_dec else None
    except ValueError:
        sv = None
    if sv is None:
        S.count("static_side_failed")
        return
    try:
        if "value" not in a_ddec:
            raise ValueError("no value: %r" % (a_ddec,))
        dv = from_json_value(st, a_ddec["value"], True)
        ok, detail = refcodec.same(dv, sv), dv
    except ValueError as e:
        ok, detail = False, "unreadable answer: %s" % e
    if ok:
        S.add("outcomes", "dec-same")
    else:
        S.add("outcomes", "dec-differs")
        S.violation("C13.decode", "C13.decode/value-differs/%s" % cc, dict(inp, op="dyn_dec", bytes=ref), expected={"static": sv}, actual={"dynamic": detail, "raw": a_ddec})


RELOAD_REVISIONS = [
    # (older revision, newer revision) of one schema: same names, changed definitions
    ('version: "3"\nenum Mode { Off = 0, On = 1, }\nstruct S { a @0: u8, m @1: Mode, }\n',
     'version: "3"\nenum Mode { Off = 0, On = 1, Auto = 2, }\nstruct S { a @0: u16, m @1: Mode, b @2: u8, }\n',
     {"a": 258, "m": 1, "b": 7}, {"a": 258, "m": "On", "b": 7}),
    ('version: "3"\nstruct In { x @0: u4, }\nstruct S { i @0: In, k @1: u4, }\n',
     'version: "3"\nstruct In { x @0: i12, y @1: u4, }\nstruct S { k @1: u4, i @0: In, }\n',
     {"i": {"x": -3, "y": 9}, "k": 5}, {"i": {"x": -3, "y": 9}, "k": 5}),
]


def run_reload(S):
    """C13 over histories of LoadBinarySchema on ONE DynamicSchema object: load(old), load(new) must behave like a
    fresh object that loaded (new); and load(new), load(new) like one load."""
    from fcp.parser import get_fcp_from_string
    from fcp.error import Logger
    from fcp.reflection import get_reflection_schema
    from fcp import serde

    rschema = get_reflection_schema().unwrap()
    for old_text, new_text, static_value, dynamic_value in RELOAD_REVISIONS:
        S.count("states")
        S.add("nontrivial", ("reload", new_text))
        refl = {}
        for k, t in (("old", old_text), ("new", new_text)):
            f = get_fcp_from_string(t, Logger({})).unwrap()
            refl[k] = bytes(serde.encode(rschema, "Fcp", f.reflection()))
        fcp = get_fcp_from_string(new_text, Logger({})).unwrap()
        exe, err = cppbuild.build(cppbuild.generate_cpp(fcp))
        S.count("executions")
        if exe is None:
            continue  # C03's subject
        for hist in (("old", "new"), ("new", "new"), ("old", "old", "new")):
            S.count("transitions")
            S.count("executions")
            reqs = [{"op": "dyn_load", "bytes": list(refl[h])} for h in hist[1:]]
            reqs += [{"op": "enc", "name": "S", "value": static_value}, {"op": "dyn_enc", "name": "S", "value": dynamic_value}]
            ans = cppbuild.run_requests(exe, reqs, refl[hist[0]])
            st_enc, dy_enc = ans[-2], ans[-1]
            inp = {"text": new_text, "older_revision": old_text, "ops": ["load:" + h for h in hist] + ["EncodeJson(S)"], "value": static_value}
            if st_enc.get("bytes") is None or dy_enc.get("bytes") != st_enc.get("bytes"):
                S.add("outcomes", "reload-differs")
                S.violation("C13.history", "C13.history/schema-loaded-into-a-used-object-differs-from-a-fresh-one/%s" % ("after-older-revision" if "old" in hist else "same-revision-twice"), inp, expected={"static": st_enc}, actual={"dynamic": dy_enc})
                continue
            dec = cppbuild.run_requests(exe, reqs[: len(hist) - 1] + [{"op": "dec", "name": "S", "bytes": st_enc["bytes"]}, {"op": "dyn_dec", "name": "S", "bytes": st_enc["bytes"]}], refl[hist[0]])
            if "value" not in dec[-1] or "value" not in dec[-2]:
                S.violation("C13.history", "C13.history/decode-after-reload-fails", inp, expected=dec[-2], actual=dec[-1])
            else:
                S.add("outcomes", "reload-ok")


def run_enum_gaps(S):
    """Bytes the compiled codec itself produces for an enum field whose number no enumerator names (a default-constructed
    message of an enum without 0; a value between two enumerators): the run-time codec decodes them to the same number."""
    from fcp.parser import get_fcp_from_string
    from fcp.error import Logger
    from fcp.reflection import get_reflection_schema
    from fcp import serde

    text = 'version: "3"\nenum State { On = 1, Off = 2, Far = 6, }\nstruct Msg { st @0: State, n @1: u5, }\n'
    fcp = get_fcp_from_string(text, Logger({})).unwrap()
    refl = bytes(serde.encode(get_reflection_schema().unwrap(), "Fcp", fcp.reflection()))
    exe, err = cppbuild.build(cppbuild.generate_cpp(fcp))
    S.count("states")
    S.count("executions")
    if exe is None:
        return
    for raw in (0, 3, 4, 5, 7, 1, 6):
        S.count("transitions")
        S.count("executions")
        data = [raw | (9 << 3)]
        ans = cppbuild.run_requests(exe, [{"op": "dec", "name": "Msg", "bytes": data}, {"op": "dyn_dec", "name": "Msg", "bytes": data}], refl)
        st, dy = ans[0], ans[1]
        inp = {"text": text, "struct": "Msg", "bytes": data, "op": "decode an enum number that is %s" % ("an enumerator" if raw in (1, 2, 6) else "not an enumerator")}
        names = {"On": 1, "Off": 2, "Far": 6}
        dyv = dy.get("value", {}).get("st") if isinstance(dy.get("value"), dict) else None
        dyv = names.get(dyv, dyv)
        if "crash" in dy or "garbled" in dy or st.get("value", {}).get("st") != dyv or st.get("value", {}).get("n") != (dy.get("value") or {}).get("n"):
            S.add("outcomes", "enum-gap-differs")
            S.violation("C13.decode", "C13.decode/enum-number-without-enumerator/%s" % ("crash" if "crash" in dy else "value-differs"), inp, expected={"static": st}, actual={"dynamic": dy})
        else:
            S.add("outcomes", "enum-gap-ok")
            S.add("nontrivial", ("enum-gap", raw))


def run(prop, tier):
    common.bind_repo()
    r = Run(prop, tier)
    nvec, badv = refcodec.check_project_vectors(common.REPO)
    if badv:
        print("HARNESS ERROR: reference codec misses project vectors")
        return 2
    structs, transitions, bounds = build_space(tier, prop)
    r.bounds = bounds
    work = make_worker(prop, tier)
    for s in pmap(work, chunks(list(enumerate(structs)), BATCH)):
        r.stats.merge(s)
    r.stats.c["transitions"] += transitions
    if prop == "C13":
        run_reload(r.stats)
        run_enum_gaps(r.stats)
    if prop == "C03":
        from . import cppschemas

        cppschemas.run_schema_level(r.stats, tier)
        if tier != "quick":
            # second opinion: address/undefined sanitizers on a slice
            for s in pmap(make_worker(prop, tier, sanitize=True), chunks(list(enumerate(structs))[:: 7], BATCH)):
                r.stats.merge(s)
    cppbuild.trim_cache()
    r.rule = (
        "states = struct shapes (type trees to the depth bound x bit offsets, field sequences) given as programs to the real fcp_cpp generator, ~%d per translation unit, compiled with g++ -std=c++17 "
        "together with a generic JSON-over-stdio harness; a failing unit is bisected to the failing structs. " % BATCH
        + (
            "C03: EncodeJson(v) == reference bytes and DecodeJson(reference bytes) == v for every boundary value; plus schema-level programs (services, several protocols, renames, nested order). "
            if prop == "C03"
            else "C13: the reflection binary made by the Python tool is loaded with LoadBinarySchema; dynamic EncodeJson/DecodeJson must equal the static codec's answers (enumerator naming aside). "
        )
        + "non-trivial = structs compiled and exercised with >= 2 values."
    )
    r.assumptions = ["g++ 12 decides 'compiles as C++17'", "nlohmann/json 3.11.2 (vendored) and finite floats over JSON", "reference wire codec pinned by the %d project vectors" % nvec]
    return r.finish()


def replay(doc):
    print(doc["input"].get("text", "")[:3000])
    for k in ("struct", "shape", "value", "op"):
        print(k + ":", doc["input"].get(k))
    print("expected:", doc["expected"])
    print("actual:", doc["actual"])
    print("(re-run: ./run %s quick rebuilds the harness for this struct)" % doc["property"])
    return 0
