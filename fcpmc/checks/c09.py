"""C09: verifier verdict equals the well-formedness specification (both ways)."""

from __future__ import annotations

import itertools

from .. import common, refverify
from ..build import build_fcp
from ..schema import U, I, F32, F64, Arr, STR
from ..common import Stats, Run, pmap, chunks

CONFIGS = ("general", "dbc", "c")


def lists_upto(options, n):
    out = [()]
    for k in range(1, n + 1):
        out += list(itertools.product(options, repeat=k))
    return out


def scope_types(tier):
    """structs x enums: type names, field names, empty structs, enumerator names/values."""
    field_lists = [()] + [(a,) for a in "xy"] + list(itertools.product("xy", repeat=2))
    structs = [("struct", n, tuple((f, i, U(8), None, None) for i, f in enumerate(fl))) for n in "AB" for fl in field_lists]
    min_enums = [("enum", n, (("p", 0),)) for n in "AC"]
    cases = []
    for sl in lists_upto(structs, 2):
        for el in lists_upto(min_enums, 2):
            cases.append(("types", list(sl) + list(el)))
    entries = [("p", 0), ("q", 1), ("p", 1), ("q", 0)]
    enumerations = [(e,) for e in entries] + list(itertools.product(entries, repeat=2))
    full_enums = [("enum", n, en) for n in "AC" for en in enumerations]
    for el in lists_upto(full_enums, 2):
        for sl in ((), (("struct", "A", (("x", 0, U(8), None, None),)),)):
            cases.append(("enums", list(sl) + list(el)))
    return cases


BIND_STRUCTS = [
    ("struct", "A", (("x", 0, U(8), None, None),)),
    ("struct", "B", (("x", 0, U(32), None, None), ("y", 1, U(32), None, None))),
    ("struct", "W", (("x", 0, U(64), None, None), ("y", 1, U(1), None, None))),
    ("enum", "En", (("p", 0), ("q", 1))),
]


def scope_bindings(tier):
    opts = []
    for name in "AB":
        for proto in ("can", "default"):
            for typ in ("A", "B", "W", "Z", "En"):
                for id_ in (None, 0, 1):
                    fields = (("id", id_),) if id_ is not None else ()
                    opts.append(("impl", proto, typ, name, fields, ()))
    cases = []
    for il in lists_upto(opts, 2):
        cases.append(("bindings", BIND_STRUCTS + list(il)))
    red = [o for o in opts if o[2] in ("A", "W") and (o[4] == () or o[4] == (("id", 0),))] if tier == "quick" else [o for o in opts if o[2] != "B"]
    for il in itertools.product(red, repeat=3):
        cases.append(("bindings3", BIND_STRUCTS + list(il)))
    # parser-like trees: one default binding per struct (name = struct name) plus explicit CAN bindings
    defaults = [("impl", "default", s[1], None, (), ()) for s in BIND_STRUCTS]
    cans = [("impl", "can", t, n, ((("id", i),) if i is not None else ()), ()) for t in ("A", "B") for n in (None, "R") for i in (None, 0, 1, 2047)]
    for il in lists_upto(cans, 2):
        cases.append(("parserlike", BIND_STRUCTS[:2] + defaults[:2] + list(il)))
    # the same frame id on the same bus, on two buses, on a named and on the unnamed bus ('default' is what the DBC
    # writer calls a binding without bus): the statement speaks of the frame id alone
    bused = [("impl", "can", t, n, (("id", i),) + ((("bus", b),) if b is not None else ()), ()) for t in ("A", "B") for n in (None, "R") for i in (0, 1) for b in (None, "b1", "b2", "default")]
    for il in lists_upto(bused, 2):
        cases.append(("buses", BIND_STRUCTS[:2] + list(il)))
    return cases


def scope_sizes(tier):
    N = ("struct", "N", (("a", 0, U(32), None, None),))
    E = ("enum", "E3", (("e0", 0), ("e5", 5)))
    leafs = [U(32), U(31), U(1), U(8), Arr(U(8), 4), Arr(U(8), 5), ("ref", "N"), ("ref", "E3"), F32, F64, Arr(("ref", "N"), 2), I(33)]
    leafs.insert(7, Arr(U(8), 0))  # a layout with no pieces: 0 bits wide, so never "wider than 64 bits"
    cases = []
    for n in (1, 2, 3):
        for combo in itertools.product(leafs if n < 3 or tier != "quick" else leafs[:8], repeat=n):
            s = ("struct", "M", tuple(("f%d" % i, i, t, None, None) for i, t in enumerate(combo)))
            for proto in ("can", "dbg"):
                if proto == "dbg" and n == 3:
                    continue
                cases.append(("sizes", [N, E, s, ("impl", proto, "M", None, (("id", 1),), ())]))
                if n < 3 and proto == "can":
                    # the same binding under a name of its own (no struct is called R), and under the name of ANOTHER struct
                    cases.append(("sizes", [N, E, s, ("impl", proto, "M", "R", (("id", 1),), ())]))
                    if n == 1:
                        cases.append(("sizes", [N, E, s, ("impl", proto, "M", "N", (("id", 1),), ())]))
    return cases


def scope_devices(tier):
    S = ("struct", "A", (("x", 0, U(8), None, None),))
    svc = lambda n: ("service", n, 0, (("m", 0, "A", "A"),))
    dev_opts = [
        ("device", "d", ()),
        ("device", "d", (("k", 1),)),
        ("device", "d", (("services", [("id", "S")]),)),
        ("device", "d", (("services", [("id", "T")]),)),
        ("device", "d", (("services", [("id", "S"), ("id", "T")]),)),
        ("device", "e", (("services", [("id", "T"), ("id", "S")]), ("k", 2))),
        # one service written without the brackets: as a name, as a string, a name whose characters are
        # all service names (ST is neither S nor T), and a number
        ("device", "d", (("services", ("id", "S")),)),
        ("device", "d", (("services", "T"),)),
        ("device", "d", (("services", ("id", "ST")),)),
        ("device", "d", (("services", 5),)),
    ]
    cases = []
    for svcs in ((), (svc("S"),), (svc("T"),), (svc("S"), svc("T"))):
        for dl in lists_upto(dev_opts, 2):
            cases.append(("devices", [S] + list(svcs) + list(dl)))
    return cases


def permutations_of(decls):
    """All permutations of the struct, enum and impl lists (as the tree stores them per category)."""
    cats = {}
    for d in decls:
        cats.setdefault(d[0], []).append(d)
    lists = []
    for c in ("struct", "enum", "impl", "service", "device"):
        items = cats.get(c, [])
        perms = list(itertools.permutations(items)) if c in ("struct", "enum", "impl", "device") and 1 < len(items) <= 3 else [tuple(items)]
        # drop duplicates (equal elements)
        uniq = []
        for p in perms:
            if p not in uniq:
                uniq.append(p)
        lists.append(uniq)
    for combo in itertools.product(*lists):
        yield [d for part in combo for d in part]


def make_worker(tier):
    from fcp.verifier import make_general_verifier
    import fcp_dbc
    import fcp_can_c

    def verifier(config):
        v = make_general_verifier()
        if config == "dbc":
            fcp_dbc.Generator().register_checks(v)
        elif config == "c":
            fcp_can_c.Generator().register_checks(v)
        return v

    def run_verify(config, decls, with_meta=True):
        tree = build_fcp(decls, with_meta=with_meta)
        try:
            r = verifier(config).verify(tree)
        except Exception as e:  # noqa
            return "exception:" + type(e).__name__, str(e)[:200]
        if r.is_ok():
            return "ok", None
        return "err", repr(r.err())[:200]

    def work(chunk):
        S = Stats()
        for idx, (scope, decls) in chunk:
            S.count("states")
            g = refverify.general_violations(decls)
            if g or any(d[0] in ("impl", "device") for d in decls) or len([d for d in decls if d[0] in ("struct", "enum")]) >= 2:
                S.add("nontrivial", idx)
            for config in CONFIGS:
                if scope in ("types", "enums", "devices") and config != "general" and idx % 3:
                    continue  # plug-in rules only look at bindings; keep a third of these trees under the plug-in check sets
                exp, reasons = refverify.verdict(decls, config)
                verdicts = {}
                first = None
                for pd in permutations_of(decls):
                    S.count("executions")
                    S.count("transitions")
                    got, detail = run_verify(config, pd)
                    verdicts.setdefault(got.split(":")[0] if got != "ok" else "ok", pd)
                    if first is None:
                        first = (got, detail, pd)
                got, detail, pd = first
                S.add("outcomes", (config, exp, got))
                inp = {"decls": decls, "config": config, "scope": scope}
                simple = "ok" if got == "ok" else "fail"
                if exp == refverify.MUST_PASS and simple != "ok":
                    kind = got if got.startswith("exception") else "rejected"
                    S.violation("C09.overstrict", "C09.overstrict/%s/%s/%s" % (config, kind, scope), inp, expected="verification succeeds", actual={"verdict": got, "detail": detail})
                elif exp == refverify.MUST_FAIL and simple == "ok":
                    S.violation("C09.missed", "C09.missed/%s/%s" % (config, "+".join(sorted(set(reasons)))), inp, expected="verification fails: %s" % reasons, actual="Ok")
                elif exp == refverify.UNSPECIFIED:
                    S.count("unspecified")
                if scope in ("bindings", "types", "enums", "devices", "buses"):
                    # the same tree built without source positions (nodes that are equal when their contents are)
                    S.count("executions")
                    S.count("transitions")
                    got2, detail2 = run_verify(config, decls, with_meta=False)
                    simple2 = "ok" if got2 == "ok" else "fail"
                    if exp == refverify.MUST_PASS and simple2 != "ok":
                        S.violation("C09.overstrict", "C09.overstrict/%s/%s/%s/no-source-positions" % (config, got2 if got2.startswith("exception") else "rejected", scope), dict(inp, nodes="built without metadata"), expected="verification succeeds", actual={"verdict": got2, "detail": detail2})
                    elif exp == refverify.MUST_FAIL and simple2 == "ok":
                        S.violation("C09.missed", "C09.missed/%s/%s/no-source-positions" % (config, "+".join(sorted(set(reasons)))), dict(inp, nodes="built without metadata"), expected="verification fails: %s" % reasons, actual="Ok")
                ok_perm = [k for k in verdicts if k == "ok"]
                fail_perm = [k for k in verdicts if k != "ok"]
                if ok_perm and fail_perm:
                    S.violation("C09.order", "C09.order/verdict-depends-on-declaration-order/%s/%s" % (config, scope), {"config": config, "decls_ok": verdicts["ok"], "decls_fail": verdicts[fail_perm[0]]}, expected="same verdict for every permutation", actual=sorted(verdicts))
            if len(S.samples) < 2:
                S.sample({"scope": scope, "decls": decls, "expected": {c: refverify.verdict(decls, c)[0] for c in CONFIGS}})
        return S

    return work


HIST_TREES = [
    ("pass-small", [("struct", "A", (("x", 0, U(8), None, None),)), ("impl", "can", "A", None, (("id", 1),), ())]),
    ("fail-dup-field", [("struct", "A", (("x", 0, U(8), None, None), ("x", 1, U(8), None, None))), ("impl", "can", "A", None, (("id", 1),), ())]),
    ("A-is-72-bits", [("struct", "A", (("x", 0, U(64), None, None), ("y", 1, U(8), None, None))), ("impl", "can", "A", None, (("id", 1),), ())]),
    ("A-is-64-bits", [("struct", "A", (("x", 0, U(64), None, None),)), ("impl", "can", "A", None, (("id", 2),), ())]),
    ("dup-can-id", [("struct", "A", (("x", 0, U(8), None, None),)), ("struct", "B", (("x", 0, U(8), None, None),)), ("impl", "can", "A", None, (("id", 0),), ()), ("impl", "can", "B", None, (("id", 0),), ())]),
    ("enum-then-struct-A", [("enum", "A", (("p", 0),)), ("struct", "B", (("x", 0, ("ref", "A"), None, None),)), ("impl", "can", "B", None, (("id", 3),), ())]),
    ("device-unknown", [("struct", "A", (("x", 0, U(8), None, None),)), ("device", "d", (("services", [("id", "T")]),))]),
]


def run_histories(S, tier):
    """Every sequence of verify() calls (length <= 3, thorough 4) on ONE verifier object per check set,
    explored by fork-snapshot; each verdict must equal that of a fresh verifier."""
    from fcp.verifier import make_general_verifier
    from ..common import fork_histories
    import fcp_dbc
    import fcp_can_c

    depth = 3 if tier == "quick" else 4
    for config in CONFIGS:
        def fresh():
            v = make_general_verifier()
            if config == "dbc":
                fcp_dbc.Generator().register_checks(v)
            elif config == "c":
                fcp_can_c.Generator().register_checks(v)
            return v

        def verdict(v, decls):
            try:
                return "ok" if v.verify(build_fcp(decls)).is_ok() else "fail"
            except Exception:  # noqa
                return "fail"

        ref = {name: verdict(fresh(), decls) for name, decls in HIST_TREES}
        live = {"v": fresh()}
        trees = dict(HIST_TREES)

        def apply_op(op, hist):
            return verdict(live["v"], trees[op])

        for hist, got in fork_histories([n for n, _ in HIST_TREES], depth, apply_op):
            S.count("states")
            S.count("transitions")
            S.count("executions")
            S.count("histories")
            S.add("nontrivial", ("hist", config, hist))
            S.add("outcomes", ("hist", config, got))
            exp, reasons = refverify.verdict(trees[hist[-1]], config)
            if got != ref[hist[-1]]:
                S.violation("C09.history", "C09.history/verdict-depends-on-earlier-verify-calls/%s" % config, {"config": config, "ops": ["verify:" + h for h in hist], "trees": {n: d for n, d in HIST_TREES}}, expected=ref[hist[-1]], actual=got)
            elif (exp == refverify.MUST_PASS and got != "ok") or (exp == refverify.MUST_FAIL and got == "ok"):
                S.violation("C09.history", "C09.history/wrong-verdict/%s/%s" % (config, hist[-1]), {"config": config, "ops": ["verify:" + h for h in hist]}, expected=exp, actual=got)


def run(tier):
    common.bind_repo()
    r = Run("C09", tier)
    cases = scope_types(tier) + scope_bindings(tier) + scope_sizes(tier) + scope_devices(tier)
    counts = {}
    for s, _ in cases:
        counts[s] = counts.get(s, 0) + 1
    r.bounds = {"trees_per_scope": counts, "configurations": list(CONFIGS)}
    for s in pmap(make_worker(tier), chunks(list(enumerate(cases)), 200)):
        r.stats.merge(s)
    run_histories(r.stats, tier)
    r.bounds["verify_history_depth"] = 3 if tier == "quick" else 4
    r.rule = (
        "states = schema trees built through the constructors, exhaustive inside per-rule sub-scopes (types: <=2 structs {A,B} with 0-2 fields {x,y} x <=2 enums {A,C}; enums: 1-2 enumerators "
        "over names {p,q} x values {0,1}; bindings: <=2 (3 over a reduced alphabet) bindings over name{A,B} x protocol{can,default} x type{A,B,W(65 bits),Z undeclared} x id{absent,1,2}; parser-like trees with "
        "default bindings; sizes: 1-3 fields around 64 bits with the excess in scalars, arrays, nested structs, enums; devices: services absent/[S]/[T]/[S,T]) x check sets {general, +DBC, +C} x every "
        "permutation of the struct/enum/binding/device lists; plus every sequence of verify() calls (7 trees, length <= 3/4) on ONE verifier object per check set (fork-snapshot) compared with a fresh verifier. oracle = three-valued reference predicate; permutation invariance needs no model. non-trivial = a rule precondition is present."
    )
    r.assumptions = ["non-CAN binding wider than 64 bits under the C check set is UNSPECIFIED (either verdict accepted)", "an exception counts as 'did not succeed'"]
    return r.finish()


def replay(doc):
    common.bind_repo()
    from fcp.verifier import make_general_verifier
    import fcp_dbc
    import fcp_can_c

    inp = doc["input"]
    decls = tuplify(inp.get("decls") or inp.get("decls_fail"))
    v = make_general_verifier()
    if inp["config"] == "dbc":
        fcp_dbc.Generator().register_checks(v)
    if inp["config"] == "c":
        fcp_can_c.Generator().register_checks(v)
    print("decls:", decls)
    try:
        print("verify ->", v.verify(build_fcp(decls)))
    except Exception as e:  # noqa
        print("exception", type(e).__name__, e)
    print("expected:", doc["expected"])
    return 0


def tuplify(x):
    if isinstance(x, list):
        return tuple(tuplify(v) for v in x)
    return x
