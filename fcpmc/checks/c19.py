"""C19: the generated C message scheduler honours periods over every call history."""

from __future__ import annotations

import itertools
import os
import shutil
import subprocess
import tempfile

from .. import common, cbuild, refsched
from ..common import Stats, Run, pmap, chunks

PERIOD_ALPHABET = (None, -1, 0, 1, 2, 3, 5)  # 0: due on every call with a new timestamp
WRAP = (1 << 32) - 3
START_NEAR_WRAP = (1 << 32) - 2
HALF_RANGE = ((1 << 31) - 1, 1 << 31, 0x90000000 - 10)

MAIN_TMPL = r"""
#include <stdio.h>
#include <stdlib.h>
#include <string.h>
#include <stdint.h>
#include <unistd.h>
#include <sys/wait.h>
#include "%(header)s"

static void send_cb(const CanFrame *f) {
    printf(" %%u:%%u:%%02x", (unsigned)f->id, (unsigned)f->dlc, f->data[0]);
}

/* reference automaton + trace invariant, used only in 'enumerate' mode (thorough tier) */
#define NMSG %(nmsg)d
static const long long PERIODS[NMSG] = {%(periods)s};
static const unsigned IDS[NMSG] = {%(ids)s};
static unsigned obs_n; static unsigned obs_ids[16];
static void send_rec(const CanFrame *f) { if (obs_n < 16) obs_ids[obs_n++] = f->id; }

static int run_history_checked(const uint32_t *deltas, int n) {
    /* child process: returns 0 if conforming, else step index + 1 */
    %(devtype)s dev; memset(&dev, 0, sizeof dev);
    uint32_t t = 0, ref_last_call = 0; uint32_t ref_last_send[NMSG]; memset(ref_last_send, 0, sizeof ref_last_send);
    for (int k = 0; k < n; k++) {
        t += deltas[k];
        obs_n = 0;
        %(sched)s(&dev, t, send_rec);
        unsigned exp_n = 0; unsigned exp_ids[16];
        if (t != ref_last_call) {
            ref_last_call = t;
            for (int i = 0; i < NMSG; i++) {
                if (PERIODS[i] != -1 && (uint32_t)(t - ref_last_send[i]) >= (uint32_t)PERIODS[i]) { exp_ids[exp_n++] = IDS[i]; ref_last_send[i] = t; }
            }
        }
        if (exp_n != obs_n) return k + 1;
        for (unsigned j = 0; j < exp_n; j++) if (exp_ids[j] != obs_ids[j]) return k + 1;
    }
    return 0;
}

int main(int argc, char **argv) {
    if (argc > 1 && strcmp(argv[1], "enumerate") == 0) {
        /* enumerate L shard_first_index nalpha a0 a1 ... : every history of length L whose first delta is alphabet[shard] */
        int L = atoi(argv[2]); int shard = atoi(argv[3]); int na = atoi(argv[4]);
        uint32_t alpha[32]; for (int i = 0; i < na; i++) alpha[i] = (uint32_t)strtoull(argv[5 + i], 0, 10);
        int idx[16]; memset(idx, 0, sizeof idx); idx[0] = shard;
        unsigned long long count = 0, bad = 0, nontrivial = 0;
        for (;;) {
            uint32_t d[16]; for (int k = 0; k < L; k++) d[k] = alpha[idx[k]];
            fflush(stdout);
            pid_t pid = fork();
            if (pid == 0) { int r = run_history_checked(d, L); _exit(r > 200 ? 200 : r); }
            int st; waitpid(pid, &st, 0);
            count++;
            if (!WIFEXITED(st) || WEXITSTATUS(st) != 0) {
                bad++;
                if (bad <= 5) { printf("BAD"); for (int k = 0; k < L; k++) printf(" %%u", d[k]); printf(" step=%%d\n", WIFEXITED(st) ? WEXITSTATUS(st) : -1); }
            }
            int k = L - 1;
            while (k >= 1) { if (++idx[k] < na) break; idx[k] = 0; k--; }
            if (k < 1) break;
        }
        printf("DONE %%llu %%llu\n", count, bad);
        return 0;
    }
    /* default mode: one history per stdin line: "delta:valuesel delta:valuesel ..." */
    char line[4096];
    while (fgets(line, sizeof line, stdin)) {
        fflush(stdout);
        pid_t pid = fork();
        if (pid == 0) {
            %(devtype)s dev; memset(&dev, 0, sizeof dev);
            uint32_t t = 0;
            char *tok = strtok(line, " \n");
            printf("H");
            while (tok) {
                unsigned long long d; unsigned v;
                sscanf(tok, "%%llu:%%u", &d, &v);
                t += (uint32_t)d;
%(setvalues)s
                printf(" |");
                %(sched)s(&dev, t, send_cb);
                tok = strtok(NULL, " \n");
            }
            printf("\n");
            fflush(stdout);
            _exit(0);
        }
        int st; waitpid(pid, &st, 0);
        if (!WIFEXITED(st) || WEXITSTATUS(st) != 0) printf("CRASH\n");
    }
    return 0;
}
"""


def device_schema(periods, dev="ecu"):
    lines = ['version: "3"']
    for i, p in enumerate(periods):
        lines.append("struct Msg%d { v @0: u8, }" % i)
        per = "" if p is None else " period: %d," % p
        lines.append('impl can for Msg%d { id: %d, device: "%s",%s }' % (i, 100 + i, dev, per))
    return "\n".join(lines) + "\n"


# periods at and beyond the 32 bits of the scheduler's time: 2^31 and 2^32-1 can still elapse, 2^32 and more never can
BIG_PERIOD_DEVICES = (((1 << 31), 2), ((1 << 32) - 1,), ((1 << 32) - 1, 1), ((1 << 32),), ((1 << 32) + 10, 3), (None, (1 << 32) + 10))


def delta_alphabet(periods):
    ps = sorted({p for p in periods if p not in (None, -1)})
    if any(p >= (1 << 31) for p in ps):
        # a small alphabet: the half range, what the period would be if it were cut to 32 bits, and the small periods themselves
        d = {0, 1, 10, (1 << 31)} | {p % (1 << 32) for p in ps}
        return sorted(x for x in d if 0 <= x < (1 << 32) and x != WRAP) + [WRAP]
    d = {0, 1}
    for p in ps:
        d |= {p - 1, p, p + 1, 2 * p}
    d = sorted(x for x in d if x >= 0)
    return d + [WRAP]


def devices(tier):
    out = []
    maxn = 3 if tier == "quick" else 4
    for n in range(1, maxn + 1):
        for ps in itertools.product(PERIOD_ALPHABET, repeat=n):
            out.append(ps)
    if tier == "quick":
        # all 1- and 2-message devices, 3-message devices over a reduced period set
        out = [ps for ps in out if len(ps) <= 2 or set(ps) <= {None, 2, 3, -1}]
        # two-message devices: every pair over {absent,-1,0,2,3}; the periods 1 and 5 next to an absent one only
        out = [ps for ps in out if len(ps) != 2 or set(ps) <= {None, -1, 0, 2, 3} or (None in ps and set(ps) <= {None, 1, 5})]
        keep = []
        for ps in out:
            if len(ps) == 3 and ps.count(None) + ps.count(-1) > 1:
                continue
            keep.append(ps)
        out = keep
    else:
        out = [ps for ps in out if len(ps) <= 3 or set(ps) <= {None, 1, 3}]
    return out + list(BIG_PERIOD_DEVICES)


def build_device(periods, work):
    from fcp.parser import get_fcp_from_string
    from fcp.error import Logger

    text = device_schema(periods)
    fcp = get_fcp_from_string(text, Logger({})).unwrap()
    files = cbuild.generate_c(fcp, work)
    info = cbuild.parse_header(files["ecu_can.h"])
    if not info["scheduler"]:
        return text, files, info, None
    sched, devtype = info["scheduler"]
    setv = []
    order = []
    for typ, member in info["device_members"]:
        i = int(typ.replace("CanMsgMsg", ""))
        order.append(i)
        setv.append("                dev.%s.v = (uint8_t)(0x%02x + v);" % (member, 0x10 * (i + 1)))
    eff = [(-1 if p is None else p) for p in periods]
    main_c = MAIN_TMPL % {
        "header": "ecu_can.h",
        "devtype": devtype,
        "sched": sched,
        "setvalues": "\n".join(setv),
        "nmsg": len(periods),
        "periods": ", ".join(str(eff[i]) for i in order),
        "ids": ", ".join(str(100 + i) for i in order),
    }
    with open(os.path.join(work, "main_fcpmc.c"), "w") as f:
        f.write(main_c)
    exe = os.path.join(work, "sched")
    p = subprocess.run(["gcc"] + cbuild.CC_FLAGS + ["-I", work, "-o", exe, os.path.join(work, "main_fcpmc.c"), os.path.join(work, "ecu_can.c"), os.path.join(work, "can_signal_parser.c")], stdout=subprocess.PIPE, stderr=subprocess.PIPE, text=True)
    if p.returncode != 0:
        return text, files, info, {"compile_error": p.stderr[-2000:]}
    return text, files, info, exe


def period_class(periods):
    return "n=%d" % len(periods)


def make_worker(tier):
    L = 5 if tier == "quick" else 5

    def work(chunk):
        S = Stats()
        for periods in chunk:
            wd = tempfile.mkdtemp(prefix="fcpmc-c19-")
            try:
                text, files, info, exe = build_device(periods, wd)
                inp0 = {"text": text, "periods": list(periods)}
                if exe is None or isinstance(exe, dict):
                    S.count("executions")
                    S.violation("C19.build", "C19.build/scheduler-missing-or-uncompilable", inp0, expected="scheduler compiles", actual=exe)
                    continue
                D = delta_alphabet(periods)
                eff = [(-1 if p is None else p) for p in periods]
                lines = []
                hists = []
                firsts = D + [START_NEAR_WRAP]
                for h in itertools.product(D, repeat=L):
                    hists.append(h)
                for h in itertools.product(D, repeat=L - 1):
                    hists.append((START_NEAR_WRAP,) + h)
                if len(periods) == 1 or (len(periods) == 2 and set(periods) <= {None, 0, 2, 3}):
                    # half-range gaps: a pause of 2^31 ticks or a first call past 2^31 is still "non-decreasing
                    # (wrapping)" time; at the first, second and third call
                    for big in HALF_RANGE:
                        for pos in (0, 1, 2):
                            for h in itertools.product(D, repeat=L - 1):
                                hists.append(h[:pos] + (big,) + h[pos:])
                for h in hists:
                    lines.append(" ".join("%d:%d" % (d, k % 2) for k, d in enumerate(h)))
                r = subprocess.run([exe], input="\n".join(lines) + "\n", stdout=subprocess.PIPE, stderr=subprocess.PIPE, text=True, timeout=3600)
                outl = r.stdout.strip().split("\n")
                if len(outl) != len(hists) or any(l == "CRASH" for l in outl):
                    S.violation("C19.run", "C19.run/harness-output-mismatch", inp0, expected=len(hists), actual={"lines": len(outl), "stderr": r.stderr[-300:]})
                    continue
                seen_prefix = set()
                for h, ol in zip(hists, outl):
                    S.count("executions")
                    calls = ol.split("|")[1:]
                    sched = refsched.Sched(eff)
                    t = 0
                    times, sent = [], []
                    ok = True
                    any_tx = False
                    for k, (d, c) in enumerate(zip(h, calls)):
                        t = (t + d) % refsched.M32
                        frames = [tuple(x.split(":")) for x in c.split()]
                        ids = [int(f[0]) - 100 for f in frames]
                        exp = sched.call(t)
                        times.append(t)
                        sent.append(ids)
                        pre = h[: k + 1]
                        if pre not in seen_prefix:
                            seen_prefix.add(pre)
                            S.count("states")
                            S.count("transitions")
                        if ids:
                            any_tx = True
                        if ids != exp and ok:
                            ok = False
                            S.violation("C19.schedule", "C19.schedule/transmission-set-differs/%s" % period_class(periods), dict(inp0, ops=["t+=%d" % x for x in h[: k + 1]]), expected={"call": k, "time": t, "sent": exp}, actual={"sent": ids})
                        v = k % 2
                        for f, i in zip(frames, ids):
                            if 0 <= i < len(periods) and (int(f[1]) != 1 or int(f[2], 16) != 0x10 * (i + 1) + v) and ok:
                                ok = False
                                S.violation("C19.frame", "C19.frame/not-the-current-value", dict(inp0, ops=["t+=%d" % x for x in h[: k + 1]]), expected={"id": 100 + i, "dlc": 1, "data0": 0x10 * (i + 1) + v}, actual=f)
                    errs = refsched.trace_invariant(eff, times, sent)
                    if errs and ok:
                        S.violation("C19.invariant", "C19.invariant/trace-invariant-violated/%s" % period_class(periods), dict(inp0, ops=["t+=%d" % x for x in h]), expected="period respected", actual=errs[:3])
                    if any_tx:
                        S.add("nontrivial", (periods, h))
                    S.add("outcomes", tuple(len(s) for s in sent))
                if len(S.samples) < 2:
                    S.sample({"periods": list(periods), "delta_alphabet": D, "histories": len(hists), "example": {"history": lines[len(lines) // 3], "observed": outl[len(lines) // 3]}})
            finally:
                shutil.rmtree(wd, ignore_errors=True)
        return S

    return work


def run_enumerated(S, tier, r):
    """Thorough tier: length-7 histories, enumerated and judged inside the C harness (which embeds
    the same automaton), sharded by the first delta."""
    devs = [(2,), (3, 5), (1, 2), (2, -1, 3), (5, 3, 2), (None, 2, 3), (1, 1, 1)]
    L = 7
    jobs = []
    for periods in devs:
        D = delta_alphabet(periods)
        for shard in range(len(D)):
            jobs.append((periods, shard, D))

    def one(job):
        periods, shard, D = job
        S2 = Stats()
        wd = tempfile.mkdtemp(prefix="fcpmc-c19e-")
        try:
            text, files, info, exe = build_device(periods, wd)
            p = subprocess.run([exe, "enumerate", str(L), str(shard), str(len(D))] + [str(d) for d in D], stdout=subprocess.PIPE, stderr=subprocess.PIPE, text=True, timeout=6 * 3600)
            last = p.stdout.strip().split("\n")[-1].split()
            if not last or last[0] != "DONE":
                S2.violation("C19.run", "C19.run/enumerate-failed", {"text": text, "periods": list(periods)}, actual=p.stdout[-300:] + p.stderr[-300:])
                return S2
            count, bad = int(last[1]), int(last[2])
            S2.count("executions", count)
            S2.count("states", count)
            S2.count("transitions", count)
            S2.count("enumerated_len7", count)
            if bad:
                S2.violation("C19.schedule", "C19.schedule/transmission-set-differs/len7/%s" % period_class(periods), {"text": text, "periods": list(periods), "bad_histories": [l for l in p.stdout.split("\n") if l.startswith("BAD")]}, expected="conforms to the automaton", actual="%d of %d histories differ" % (bad, count))
        finally:
            shutil.rmtree(wd, ignore_errors=True)
        return S2

    for s in pmap(one, jobs):
        S.merge(s)
    r.bounds["enumerated_devices_len7"] = [list(d) for d in devs]


TWO_MAIN = r"""
#include <stdio.h>
#include <stdlib.h>
#include <string.h>
#include <stdint.h>
#include <unistd.h>
#include <sys/wait.h>
#include "ecu_can.h"
#include "bms_can.h"
static void send_cb(const CanFrame *f) { printf(" %%u", (unsigned)f->id); }
int main(void) {
    char line[4096];
    while (fgets(line, sizeof line, stdin)) {
        fflush(stdout);
        pid_t pid = fork();
        if (pid == 0) {
            %(ecu)s ecu; memset(&ecu, 0, sizeof ecu);
            %(bms)s bms; memset(&bms, 0, sizeof bms);
            uint32_t t = 0;
            char *tok = strtok(line, " \n");
            printf("H");
            while (tok) {
                unsigned long long d; char order;
                sscanf(tok, "%%llu:%%c", &d, &order);
                t += (uint32_t)d;
                if (order == 'e') { printf(" |e"); %(ecu_s)s(&ecu, t, send_cb); printf(" |b"); %(bms_s)s(&bms, t, send_cb); }
                else { printf(" |b"); %(bms_s)s(&bms, t, send_cb); printf(" |e"); %(ecu_s)s(&ecu, t, send_cb); }
                tok = strtok(NULL, " \n");
            }
            printf("\n"); fflush(stdout); _exit(0);
        }
        int st; waitpid(pid, &st, 0);
        if (!WIFEXITED(st) || WEXITSTATUS(st) != 0) printf("CRASH\n");
    }
    return 0;
}
"""


def run_two_devices(S, tier):
    """Two devices in one executable: each scheduler keeps its OWN state, so calling both with the same
    timestamp (in either order) must make each behave as if it were alone."""
    from fcp.parser import get_fcp_from_string
    from fcp.error import Logger

    L = 4 if tier == "quick" else 5
    # 'interleaved': the messages of one device are not declared next to each other (ecu, bms, ecu ...)
    for pe, pb, order in (((2,), (2,), "grouped"), ((3,), (2, 5), "grouped"), ((1, -1), (3,), "grouped"), ((3,), (2, 5), "interleaved"), ((2, 3), (3, 2), "interleaved")):
        decl = []
        for dev, ps, base in (("ecu", pe, 100), ("bms", pb, 200)):
            for i, p in enumerate(ps):
                decl.append((i, dev, "struct %s%d { v @0: u8, }\n" % (dev.capitalize(), i) + 'impl can for %s%d { id: %d, device: "%s", period: %d, }' % (dev.capitalize(), i, base + i, dev, p)))
        if order == "interleaved":
            decl.sort(key=lambda x: (x[0], x[1] == "ecu"))
        lines = ['version: "3"'] + [d[2] for d in decl]
        text = "\n".join(lines) + "\n"
        wd = tempfile.mkdtemp(prefix="fcpmc-c19t-")
        try:
            fcp = get_fcp_from_string(text, Logger({})).unwrap()
            files = cbuild.generate_c(fcp, wd)
            ie, ib = cbuild.parse_header(files["ecu_can.h"]), cbuild.parse_header(files["bms_can.h"])
            main_c = TWO_MAIN % {"ecu": ie["scheduler"][1], "bms": ib["scheduler"][1], "ecu_s": ie["scheduler"][0], "bms_s": ib["scheduler"][0]}
            open(os.path.join(wd, "main2.c"), "w").write(main_c)
            exe = os.path.join(wd, "two")
            p = subprocess.run(["gcc"] + cbuild.CC_FLAGS + ["-I", wd, "-o", exe, os.path.join(wd, "main2.c"), os.path.join(wd, "ecu_can.c"), os.path.join(wd, "bms_can.c"), os.path.join(wd, "can_signal_parser.c")], stdout=subprocess.PIPE, stderr=subprocess.PIPE, text=True)
            inp0 = {"text": text, "periods": {"ecu": list(pe), "bms": list(pb)}, "declaration_order": order}
            if p.returncode != 0:
                S.violation("C19.build", "C19.build/two-devices-do-not-link", inp0, expected="links", actual=p.stderr[-800:])
                continue
            D = delta_alphabet(pe + pb)
            hists = [tuple(zip(h, o)) for h in itertools.product(D, repeat=L) for o in (("e",) * L, ("b",) * L, tuple("eb"[k % 2] for k in range(L)))]
            inp_lines = [" ".join("%d:%s" % (d, o) for d, o in h) for h in hists]
            r = subprocess.run([exe], input="\n".join(inp_lines) + "\n", stdout=subprocess.PIPE, text=True, timeout=3600)
            outl = r.stdout.strip().split("\n")
            if len(outl) != len(hists):
                S.violation("C19.run", "C19.run/harness-output-mismatch", inp0, expected=len(hists), actual=len(outl))
                continue
            for h, ol in zip(hists, outl):
                S.count("executions")
                S.count("states")
                S.count("transitions")
                S.count("two_device_histories")
                se, sb = refsched.Sched(list(pe)), refsched.Sched(list(pb))
                t = 0
                calls = ol.split("|")[1:]
                got = {"e": [], "b": []}
                for c in calls:
                    got[c[0]].append([int(x) for x in c[1:].split()])
                exp = {"e": [], "b": []}
                for d, _o in h:
                    t = (t + d) % refsched.M32
                    exp["e"].append([100 + i for i in se.call(t)])
                    exp["b"].append([200 + i for i in sb.call(t)])
                if any(got["e"]) or any(got["b"]):
                    S.add("nontrivial", ("two", pe, pb, h))
                if got != exp:
                    S.add("outcomes", "two-differs")
                    S.violation("C19.schedule", "C19.schedule/devices-in-one-program-interfere", dict(inp0, ops=["t+=%d order=%s" % (d, o) for d, o in h]), expected=exp, actual=got)
                    break
                S.add("outcomes", ("two", tuple(len(x) for x in exp["e"])))
        finally:
            shutil.rmtree(wd, ignore_errors=True)


def run(tier):
    common.bind_repo()
    r = Run("C19", tier)
    devs = devices(tier)
    r.bounds = {"devices": len(devs), "history_length": 5, "period_alphabet": [str(p) for p in PERIOD_ALPHABET], "delta_alphabet": "{0,1} U {P-1,P,P+1,2P} U {2^32-3}; first delta may also be 2^32-2"}
    for s in pmap(make_worker(tier), chunks(devs, 1)):
        r.stats.merge(s)
    run_two_devices(r.stats, tier)
    if tier != "quick":
        run_enumerated(r.stats, tier, r)
    r.rule = (
        "states = call-history prefixes: for every device (1..3 messages, thorough 4; periods from {absent,-1,0,1,2,3,5}) EVERY history of the length bound over the delta alphabet (incl. 32-bit wrap) is run on the "
        "generated scheduler, one forked process per history so the function-static state is genuinely initial; oracle = reference automaton per call + independent trace invariant + frame = encoding of the "
        "current value. non-trivial = history with at least one transmission."
    )
    r.assumptions = ["gcc 12", "first call at time 0 is a repeated timestamp (last_call_t starts at 0), as the statement's 'since time 0' fixes"]
    return r.finish()


def replay(doc):
    common.bind_repo()
    inp = doc["input"]
    wd = tempfile.mkdtemp(prefix="fcpmc-replay-")
    try:
        text, files, info, exe = build_device(tuple(inp["periods"]), wd)
        ops = inp.get("ops", [])
        line = " ".join("%d:%d" % (int(o.split("=")[1]), k % 2) for k, o in enumerate(ops))
        r = subprocess.run([exe], input=line + "\n", stdout=subprocess.PIPE, text=True)
        print("periods:", inp["periods"], "history:", line)
        print("observed:", r.stdout.strip())
        print("expected:", doc["expected"])
    finally:
        shutil.rmtree(wd, ignore_errors=True)
    return 0
