"""Reference automaton of the generated C message scheduler (C19). No imports from fcp."""

M32 = 1 << 32


class Sched:
    def __init__(self, periods):
        self.periods = list(periods)  # -1 = never
        self.last_call = 0
        self.last_send = [0] * len(periods)

    def call(self, t):
        """Returns the indices transmitted on this call, in message order."""
        if t == self.last_call:
            return []
        self.last_call = t
        out = []
        for i, p in enumerate(self.periods):
            if p != -1 and ((t - self.last_send[i]) % M32) >= p:
                out.append(i)
                self.last_send[i] = t
        return out


def trace_invariant(periods, times, sent):
    """Independent oracle on an observed trace: times[k] = timestamp of call k, sent[k] = list of
    message indices transmitted on call k.  Returns list of error strings."""
    errs = []
    last_tx = [0] * len(periods)  # 'since time 0 for the first'
    prev_t = 0
    for k, (t, s) in enumerate(zip(times, sent)):
        if t == prev_t and s:
            errs.append("call %d: transmission on a repeated timestamp" % k)
        for i in s:
            if periods[i] == -1:
                errs.append("call %d: message %d has no period but was sent" % (k, i))
            elif ((t - last_tx[i]) % M32) < periods[i]:
                errs.append("call %d: message %d sent %d after its previous transmission (< period %d)" % (k, i, (t - last_tx[i]) % M32, periods[i]))
            last_tx[i] = t
        if len(set(s)) != len(s):
            errs.append("call %d: message sent twice in one call" % k)
        prev_t = t
    return errs
