"""Build and run the C code produced by the real fcp_can_c generator.

Function, type and member names are read back from the generated header, not
recomputed, so the harness does not depend on the generator's naming rules."""

from __future__ import annotations

import hashlib
import os
import re
import shutil
import struct
import subprocess
import tempfile


def generate_c(fcp, outdir):
    """Run the real generator; returns {filename: contents} (files also written to outdir)."""
    import fcp_can_c

    results = fcp_can_c.Generator().generate(fcp, {"output": outdir, "templates": {}, "skels": {}})
    files = {}
    for r in results:
        name = os.path.basename(str(r["path"]))
        files[name] = str(r["contents"])
        with open(os.path.join(outdir, name), "w") as f:
            f.write(files[name])
    return files


TYPEDEF_RE = re.compile(r"typedef struct \{(.*?)\}\s*(CanMsg\w+);", re.S)
MEMBER_RE = re.compile(r"^\s*([A-Za-z_][\w ]*?)\s+(\w+)(\[\d+\])?;\s*$", re.M)
ENC_RE = re.compile(r"CanFrame (can_encode_msg_\w+)\(const (CanMsg\w+) \*msg(, uint32_t \w+)?\);")
DEC_RE = re.compile(r"(CanMsg\w+) (can_decode_msg_\w+)\(const CanFrame \*frame\);")
ID_RE = re.compile(r"#define CAN_MSG_ID_(\w+) (\S+)")
PERIOD_RE = re.compile(r"#define CAN_MSG_PERIOD_(\w+) (\S+)")
ENUM_RE = re.compile(r"typedef enum \{(.*?)\}\s*(\w+);", re.S)
SCHED_RE = re.compile(r"void (can_send_\w+_msgs_scheduled)\(const (CanDevice\w+) \*dev")
DEVMEMBER_RE = re.compile(r"^\s*(CanMsg\w+) (\w+);\s*$", re.M)


def parse_header(text):
    """-> dict: messages {CanMsgX: {members:[(ctype,name,array)], encode, decode, mux}}, enums, scheduler."""
    info = {"messages": {}, "enums": {}, "scheduler": None, "device_members": []}
    for body, name in TYPEDEF_RE.findall(text):
        if name.startswith("CanMsg"):
            info["messages"][name] = {"members": [(t.strip(), n, a) for t, n, a in MEMBER_RE.findall(body)], "encode": None, "decode": None, "mux": False}
    for fn, typ, mux in ENC_RE.findall(text):
        if typ in info["messages"]:
            info["messages"][typ]["encode"] = fn
            info["messages"][typ]["mux"] = bool(mux)
    for typ, fn in DEC_RE.findall(text):
        if typ in info["messages"]:
            info["messages"][typ]["decode"] = fn
    for body, name in ENUM_RE.findall(text):
        info["enums"][name] = body
    m = SCHED_RE.search(text)
    if m:
        info["scheduler"] = (m.group(1), m.group(2))
    dm = re.search(r"typedef struct \{([^}]*)\}\s*CanDevice\w+;", text, re.S)
    if dm:
        info["device_members"] = DEVMEMBER_RE.findall(dm.group(1))
    info["ids"] = dict(ID_RE.findall(text))
    info["periods"] = dict(PERIOD_RE.findall(text))
    return info


def c_literal(ctype, v):
    if ctype == "float":
        return "%sf" % float(v).hex() if v == v else "NAN"
    if ctype == "double":
        return float(v).hex()
    if isinstance(v, int):
        if v < 0:
            return "(-%dLL-1)" % (-v - 1)
        return "%dULL" % v
    raise ValueError((ctype, v))


def member_printer(ctype, expr):
    """C statements printing name=value in a type-independent textual form."""
    if ctype == "float":
        return '{ float _f = %s; uint32_t _b; memcpy(&_b, &_f, 4); printf("f32:%%08x", _b); }' % expr
    if ctype == "double":
        return '{ double _d = %s; uint64_t _b; memcpy(&_b, &_d, 8); printf("f64:%%016llx", (unsigned long long)_b); }' % expr
    if ctype.startswith("int"):
        return 'printf("i:%%lld", (long long)(%s));' % expr
    return 'printf("u:%%llu", (unsigned long long)(%s));' % expr


def parse_printed(tok):
    kind, val = tok.split(":", 1)
    if kind == "f32":
        return struct.unpack("<f", struct.pack("<I", int(val, 16)))[0]
    if kind == "f64":
        return struct.unpack("<d", struct.pack("<Q", int(val, 16)))[0]
    return int(val)


def make_codec_main(header_name, info, value_table):
    """value_table: {CanMsgX: [ {member: python value}, ... ]}"""
    L = ['#include <stdio.h>', '#include <string.h>', '#include <stdint.h>', '#include <math.h>', '#include "%s"' % header_name, "int main(void) {"]
    for typ, rows in value_table.items():
        m = info["messages"][typ]
        for k, row in enumerate(rows):
            L.append("  {")
            L.append("    %s m; memset(&m, 0, sizeof m);" % typ)
            for ctype, name, arr in m["members"]:
                if name in row:
                    L.append("    m.%s = (%s) %s;" % (name, ctype, c_literal(ctype, row[name])))
            L.append("    CanFrame f = %s(&m);" % m["encode"])
            L.append('    printf("E %s %d %%u %%u", (unsigned)f.id, (unsigned)f.dlc); for (int i = 0; i < 8; i++) printf(" %%02x", f.data[i]); printf("\\n");' % (typ, k))
            L.append("    %s d = %s(&f);" % (typ, m["decode"]))
            L.append('    printf("D %s %d");' % (typ, k))
            for ctype, name, arr in m["members"]:
                L.append('    printf(" %s=");' % name)
                L.append("    " + member_printer(ctype, "d." + name))
            L.append('    printf("\\n");')
            L.append("  }")
    L.append("  return 0;\n}")
    return "\n".join(L) + "\n"


CC_FLAGS = ["-std=gnu11", "-O0", "-w"]


def compile_and_run(workdir, sources, main_c, cc="gcc", stdin=None, timeout=120, extra_flags=()):
    with open(os.path.join(workdir, "main_fcpmc.c"), "w") as f:
        f.write(main_c)
    exe = os.path.join(workdir, "a.out")
    p = subprocess.run([cc] + CC_FLAGS + list(extra_flags) + ["-I", workdir, "-o", exe, os.path.join(workdir, "main_fcpmc.c")] + [os.path.join(workdir, s) for s in sources] + ["-lm"], stdout=subprocess.PIPE, stderr=subprocess.PIPE, text=True)
    if p.returncode != 0:
        return {"compile_error": p.stderr[-3000:]}
    r = subprocess.run([exe], input=stdin, stdout=subprocess.PIPE, stderr=subprocess.PIPE, text=True, timeout=timeout)
    return {"rc": r.returncode, "stdout": r.stdout, "stderr": r.stderr[-2000:]}


def first_error(stderr):
    for line in stderr.split("\n"):
        if "error" in line:
            msg = line.split("error:", 1)[-1].strip()
            msg = re.sub(r"[‘'`][^’']*[’']", "'_'", msg)
            return msg[:80]
    return "?"
