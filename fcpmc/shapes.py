"""Deterministic enumerators: leaf alphabets, type trees (via BFS over the
constructor productions), alignment contexts, field sequences, boundary values."""

from __future__ import annotations

import itertools
import struct as _struct

from .schema import U, I, F32, F64, STR, Arr, Dyn, Opt, St, enum_with_max, type_str
from .common import bfs

W_QUICK = (1, 2, 3, 5, 7, 8, 9, 15, 16, 17, 24, 31, 32, 33, 48, 63, 64)
W_THOROUGH = tuple(range(1, 65))
ENUM_BITS = (1, 2, 3, 4, 5, 6, 7, 8)


def enum_leaves(bits=ENUM_BITS):
    out = []
    for b in bits:
        out.append(enum_with_max((1 << b) - 1))  # upper edge of width b
        if b > 1:
            m = 1 << (b - 1)  # lower edge of width b; names sort in the opposite order of the values
            out.append(("en", (("a%d" % m, m), ("y0", 0))))  # and the maximum is declared FIRST
        else:
            out.append(enum_with_max(0))  # single enumerator 0: still 1 bit
    return out


def leaves_full(widths):
    out = []
    for w in widths:
        out.append(U(w))
        out.append(I(w))
    out += [F32, F64, STR]
    out += enum_leaves()
    out += [St(U(3)), St(I(5), F32), OOO]
    # enums whose maximum is beyond double precision of log2 (bit-flag style enumerators)
    out += [enum_with_max((1 << 49) - 1), enum_with_max(1 << 63)]
    return out


# nested struct whose fields are DECLARED out of field-id order (wire order is b, a)
OOO = ("st", (("a", 1, U(3)), ("b", 0, I(6))))

# one per kind and per alignment class
REP12 = [
    U(1),
    U(3),
    U(8),
    U(13),
    I(5),
    I(16),
    I(64),
    F32,
    F64,
    STR,
    enum_with_max(5),  # 3 bits
    St(U(3), I(6)),
    OOO,
]
REP6 = [U(3), I(5), F32, STR, enum_with_max(2), St(U(3), I(6))]
REP4 = [U(3), I(16), STR, enum_with_max(5)]


def type_depth(t):
    from .schema import type_depth as td

    return td(t)


def wrap_successors(t, nested_struct=True, arr_sizes=(1, 2, 3)):
    out = []
    for n in arr_sizes:
        out.append(("arr%d" % n, Arr(t, n)))
    out.append(("dyn", Dyn(t)))
    out.append(("opt", Opt(t)))
    if nested_struct:
        out.append(("st1", St(t)))
        out.append(("st2", St(t, U(3))))
    return out


def type_trees(leaves, depth, **kw):
    """All type trees of constructor depth <= depth over the leaves; returns (list, transitions)."""
    order, transitions = bfs(leaves, lambda t: wrap_successors(t, **kw), lambda t: t, depth)
    return [t for t, _d in order], transitions


def contexts(t, offsets, tails=(True, False), reversed_decl_offsets=()):
    """Place T as field x of S {pad:U(p)?, x:T, tail:U5?} for each offset / tail choice.  For the
    offsets in reversed_decl_offsets the same struct is also DECLARED in reverse order (tail, x, pad)
    with unchanged field ids, so the wire order differs from the declaration order."""
    out = []
    for p in offsets:
        for tail in tails:
            fields = []
            fid = 0
            if p:
                fields.append(("pad", fid, U(p)))
                fid += 1
            fields.append(("x", fid, t))
            fid += 1
            if tail:
                fields.append(("tail", fid, U(5)))
            out.append(("st", tuple(fields)))
            if p in reversed_decl_offsets and tail and len(fields) > 1:
                out.append(("st", tuple(reversed(fields))))
    return out


def field_sequences(reps, maxlen, minlen=2, reversed_ids=False):
    out = []
    for n in range(minlen, maxlen + 1):
        for combo in itertools.product(reps, repeat=n):
            out.append(("st", tuple(("g%d" % i, i, t) for i, t in enumerate(combo))))
            if reversed_ids:
                # same declaration order, ids descending: the wire order is the reverse
                out.append(("st", tuple(("g%d" % i, n - 1 - i, t) for i, t in enumerate(combo))))
    return out


# ----------------------------------------------------------------------
# values

F32_VALUES = [0.0, -0.0, 1.5, -1.0, _struct.unpack("<f", bytes.fromhex("ffff7f7f"))[0], _struct.unpack("<f", bytes.fromhex("01000000"))[0]]
F64_VALUES = [0.0, -0.0, 1.5, -1.0, 1.7976931348623157e308, 5e-324]
F32_SPECIAL = [float("inf"), _struct.unpack("<f", bytes.fromhex("0000c07f"))[0]]
F64_SPECIAL = [float("-inf"), float("nan")]

STR40 = "".join(chr(c) for c in ([0x01, 0x09, 0x0A, 0x0D, 0x1F, 0x20, 0x22, 0x27, 0x5C, 0x7F] + list(range(0x30, 0x30 + 30))))
assert len(STR40) == 40
STR300 = "".join(chr(0x21 + (i % 94)) for i in range(300))
STR_VALUES = ["", "a", STR40, STR300]


def int_values(kind, w):
    if kind == "u":
        vals = [0, 1, (1 << w) - 1]
    else:
        vals = [-(1 << (w - 1)), -1, 0, 1, (1 << (w - 1)) - 1]
        if w == 1:
            vals = [-1, 0]
    out = []
    for v in vals:
        if kind == "u" and not (0 <= v < (1 << w)):
            continue
        if kind == "i" and not (-(1 << (w - 1)) <= v < (1 << (w - 1))):
            continue
        if v not in out:
            out.append(v)
    return out


def values(t, special_floats=True, json_safe=False, small=False):
    """Boundary value list V(T) for a (structural) type."""
    k = t[0]
    if k in ("u", "i"):
        return int_values(k, t[1])
    if k == "f32":
        v = list(F32_VALUES)
        if special_floats and not json_safe:
            v += F32_SPECIAL
        return v
    if k == "f64":
        v = list(F64_VALUES)
        if special_floats and not json_safe:
            v += F64_SPECIAL
        return v
    if k == "str":
        return list(STR_VALUES[:3]) if small else list(STR_VALUES)
    if k == "en":
        vs = sorted(set(v for _, v in t[1]))
        return vs
    if k == "st":
        return struct_values(t, special_floats=special_floats, json_safe=json_safe, small=True)
    if k == "arr":
        ev = values(t[1], special_floats, json_safe, small=True)
        base = ev[0]
        out = []
        # all-equal vectors for each boundary value, plus each position x each value
        for v in ev:
            out.append([v] * t[2])
        for pos in range(t[2]):
            for v in ev[1:]:
                vec = [base] * t[2]
                vec[pos] = v
                if vec not in out and not any(_same_list(vec, o) for o in out):
                    out.append(vec)
        return out
    if k == "dyn":
        ev = values(t[1], special_floats, json_safe, small=True)
        out = [[]]
        for v in ev:
            out.append([v])
        out.append([ev[i % len(ev)] for i in range(2)])
        out.append([ev[i % len(ev)] for i in range(9)])
        if t[1] == ("u", 8) and not small:
            out.append([i % 256 for i in range(300)])
        return out
    if k == "opt":
        return [None] + values(t[1], special_floats, json_safe, small=True)
    raise ValueError(t)


def _same_list(a, b):
    from .refcodec import same

    return same(a, b)


def struct_values(st, special_floats=True, json_safe=False, small=False, limit=256):
    """Full product when <= limit combinations, otherwise the star (each position x
    each boundary value, others at base) plus all-first / all-last."""
    assert st[0] == "st"
    per = [values(f[2], special_floats, json_safe, small) for f in st[1]]
    names = [f[0] for f in st[1]]
    total = 1
    for p in per:
        total *= len(p)
    out = []
    if total <= limit:
        for combo in itertools.product(*per):
            out.append(dict(zip(names, combo)))
        return out
    base = [p[0] for p in per]
    out.append(dict(zip(names, base)))
    out.append(dict(zip(names, [p[-1] for p in per])))
    for i, p in enumerate(per):
        for v in p[1:]:
            vec = list(base)
            vec[i] = v
            out.append(dict(zip(names, vec)))
    return out


def struct_values_mode(st, limit=256):
    per = [values(f[2]) for f in st[1]]
    total = 1
    for p in per:
        total *= len(p)
    return "product" if total <= limit else "star"


def nontrivial_shape(st) -> bool:
    """A struct shape is non-trivial when some field is not byte-aligned / not a whole number
    of bytes, or it contains a container."""
    off = 0
    for f in st[1]:
        t = f[2]
        if t[0] in ("arr", "dyn", "opt", "st", "str"):
            return True
        w = fixed_width(t)
        if w is None or off % 8 or w % 8:
            return True
        off += w
    return False


def fixed_width(t):
    k = t[0]
    if k in ("u", "i"):
        return t[1]
    if k == "f32":
        return 32
    if k == "f64":
        return 64
    if k == "en":
        m = max(v for _, v in t[1])
        return 1 if m <= 1 else m.bit_length()
    if k == "arr":
        w = fixed_width(t[1])
        return None if w is None else w * t[2]
    if k == "st":
        ws = [fixed_width(f[2]) for f in t[1]]
        return None if any(w is None for w in ws) else sum(ws)
    return None
