"""A minimal generator plug-in used by the C10 check only: what any third-party plug-in may do that the
shipped ones happen not to - return files in sub-directories of the output directory, register a 'field' check
and a check without category."""

from pathlib import Path

from fcp.codegen import CodeGenerator
from fcp.verifier import register
from fcp.error import error
from fcp.result import Ok


class Generator(CodeGenerator):
    def generate(self, fcp, ctx):
        out = Path(ctx.get("output"))
        names = [s.name for s in fcp.structs]
        return [
            {"type": "file", "path": out / "index.txt", "contents": "\n".join(names) + "\n"},
            {"type": "file", "path": out / "include" / "types.h", "contents": "".join("struct %s;\n" % n for n in names)},
            {"type": "file", "path": out / "src" / "deep" / "types.c", "contents": "/* %d structs */\n" % len(names)},
            {"type": "file", "path": out / "include" / "enums.h", "contents": "".join("enum %s;\n" % e.name for e in fcp.enums)},
        ]

    def register_checks(self, verifier):
        @register(verifier, "field")
        def no_field_called_forbidden(self, fcp, node):
            struct, field = node
            if field.name == "forbidden":
                return error("field name 'forbidden' is refused by the stub plug-in", node=field)
            return Ok(())

        @register(verifier)
        def no_schema_without_structs(self, fcp, node):
            if not fcp.structs:
                return error("the stub plug-in wants at least one struct")
            return Ok(())
