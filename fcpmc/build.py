"""Build fcp AST objects from description tuples through the constructors (no parser)."""

from __future__ import annotations


def build_type(t, kinds):
    from fcp.specs import type as T

    k = t[0]
    if k == "u":
        return T.UnsignedType("u%d" % t[1])
    if k == "i":
        return T.SignedType("i%d" % t[1])
    if k == "f32":
        return T.FloatType()
    if k == "f64":
        return T.DoubleType()
    if k == "str":
        return T.StringType()
    if k == "ref":
        return T.EnumType(t[1]) if kinds.get(t[1]) == "enum" else T.StructType(t[1])
    if k == "arr":
        return T.ArrayType(build_type(t[1], kinds), t[2])
    if k == "dyn":
        return T.DynamicArrayType(build_type(t[1], kinds))
    if k == "opt":
        return T.OptionalType(build_type(t[1], kinds))
    raise ValueError(t)


def conv(v):
    if isinstance(v, tuple) and v and v[0] == "id":
        return v[1]
    if isinstance(v, list):
        return [conv(x) for x in v]
    return v


def build_fcp(decls, default_impls=False, with_meta=True):
    from fcp.specs.v2 import FcpV2
    from fcp.specs.struct import Struct
    from fcp.specs.struct_field import StructField
    from fcp.specs.enum import Enum, Enumeration
    from fcp.specs.impl import Impl
    from fcp.specs.signal_block import SignalBlock
    from fcp.specs.service import Service
    from fcp.specs.method import Method
    from fcp.specs.device import Device
    from fcp.specs.metadata import MetaData

    def meta(i):
        # with_meta=False: the way the repository's own tests/fcp_builder.py builds nodes (no source position)
        return MetaData(i + 1, i + 1, 1, 1, 0, 0, "main.fcp") if with_meta else None

    kinds = {}
    for d in decls:
        if d[0] == "enum":
            kinds.setdefault(d[1], "enum")
        elif d[0] == "struct":
            kinds[d[1]] = "struct"
    fcp = FcpV2()
    for i, d in enumerate(decls):
        if d[0] == "struct":
            fields = [StructField(name=f[0], field_id=f[1], type=build_type(f[2], kinds), meta=meta(i)) for f in d[2]]
            fcp.structs.append(Struct(name=d[1], fields=fields, meta=meta(i)))
            if default_impls:
                fcp.impls.append(Impl(name=d[1], protocol="default", type=d[1], fields={}, signals=[], meta=meta(i)))
        elif d[0] == "enum":
            fcp.enums.append(Enum(name=d[1], enumeration=[Enumeration(name=n, value=v, meta=meta(i)) for n, v in d[2]], meta=meta(i)))
        elif d[0] == "impl":
            _, proto, typ, as_name, fields, signals = d[:6]
            fcp.impls.append(
                Impl(
                    name=as_name if as_name is not None else typ,
                    protocol=proto,
                    type=typ,
                    fields={k: conv(v) for k, v in fields},
                    signals=[SignalBlock(name=sn, fields={k: conv(v) for k, v in sf}, meta=meta(i)) for sn, sf in signals],
                    meta=meta(i),
                )
            )
        elif d[0] == "service":
            _, name, sid, methods = d
            fcp.services.append(Service(name, sid, [Method(m[0], m[1], m[2], m[3], meta(i)) for m in methods], meta=meta(i)))
        elif d[0] == "device":
            fcp.devices.append(Device(d[1], {k: conv(v) for k, v in d[2]}, meta(i)))
    return fcp
