"""The schema-description space shared by C07, C12 (and the corpus of C11): built production by
production over every alternative of the grammar inside a small scope."""

from __future__ import annotations

import itertools

from .schema import U, I, F32, F64, STR, Arr, Dyn, Opt
from .common import bfs

BASE_STRUCT = ("struct", "B0", (("b", 0, U(8), None, None),))
BASE_ENUM = ("enum", "E0", (("e0", 0), ("e1", 1)))

IDENTS = ("u8x", "i2c_msg", "f32x", "strx", "Optionalx", "structure", "mod_", "A", "a_b1", "implx", "enum_", "u", "i", "f", "_x", "as_", "version1", "signalx", "methodx", "returnsx", "u123", "f321")
VALUE_FORMS = (0, 7, -3, 18446744073709551615, 9007199254740993, -9223372036854775807, 2.0, 1e+16, 1.5, -2.5e-3, 1e10, "", "txt", "a b", "\u00b5s \u03a9", "x//y", "p/*q*/r", ("id", "ident1"), ("id", "u8"), [1], [1, 2], [("id", "a"), "s", -1.5], [[1, 2], [3]], [[1], [2, [3]]], [], [[], [1]])
RANGE_FORMS = ((-1.5, 2000.0), (0.0, 1.0), (1e-3, 1e5), (-1e-7, -0.0), (0, 10), (-5, 5.5), (1e-05, 1e16))
UNITS = ("m/s", "", "\u00b0C", "deg C", "%", "a,b", "\u03a9\u00b7m \u20ac", 'in\\"', 'say \\"hi\\"', "back\\\\slash")


def _wrappers(t):
    return [("arr", Arr(t, 2)), ("dyn", Dyn(t)), ("opt", Opt(t))]


def type_space(depth):
    leaves = [U(8), I(16), U(1), I(64), F32, F64, STR, ("ref", "B0"), ("ref", "E0")]
    order, transitions = bfs(leaves, _wrappers, lambda t: t, depth)
    return [t for t, _ in order], transitions


def descriptions(tier):
    """Returns (list of (label, decls), transitions)."""
    out = []
    transitions = 0
    depth = 2 if tier == "quick" else 3
    types, tr = type_space(depth)
    transitions += tr
    # 1. every type tree as the type of a single field (plus an ordinary second field)
    for i, t in enumerate(types):
        out.append(("type", [BASE_STRUCT, BASE_ENUM, ("struct", "S", (("x", 0, t, None, None), ("y", 1, U(3), None, None)))]))
    # 2. params: unit / range in both orders, ids in and out of order
    idsets = ((0, 1), (1, 0), (7, 255), (255, 0), (1, 256), (65536, 3), (4294967295, 2)) if tier != "quick" else ((0, 1), (255, 7), (257, 1), (4294967295, 65536))
    ranges = RANGE_FORMS if tier != "quick" else RANGE_FORMS[:1] + RANGE_FORMS[3:5] + RANGE_FORMS[6:]
    units = UNITS if tier != "quick" else UNITS[:3] + UNITS[6:]
    for ids in idsets:
        for unit in (None,) + units:
            for rng in (None,) + ranges:
                for order in ("ur", "ru"):
                    if order == "ru" and (unit is None or rng is None):
                        continue
                    f0 = ("x", ids[0], U(8), unit, rng, order)
                    f1 = ("y", ids[1], F32, None, rng)
                    out.append(("params", [("struct", "S", (f0, f1))]))
    # 3. enums
    for vals in ((0,), (5,), (-1,), (0, 1), (5, 0), (-1, 7), (0, 1, 2), (255, 256, 65536), (2147483647, -2147483648),
                 (1, 1), (0, 1, 1, 2), (3, 0, 3)):  # aliases: several enumerators of one value are all kept, in source order
        out.append(("enum", [("enum", "E", tuple(("v%d" % i, v) for i, v in enumerate(vals)))]))
    # integers beyond the fixed-width slots of the reflection schema (i32 enumerator values; u32 field ids, array
    # sizes, service and method ids): the language itself puts no bound on them
    out.append(("enum-beyond-i32", [("enum", "E", (("v0", 9007199254740993), ("v1", 18446744073709551615)))]))
    out.append(("enum-flags-32-bit", [("enum", "Flags", (("Off", 0), ("HighBit", 3000000000), ("All", 4294967295)))]))
    S1 = ("struct", "S", (("a", 0, U(8), None, None),))
    out.append(("field-id-beyond-u32", [("struct", "S", (("a", 4294967296, U(8), None, None), ("b", 1, U(16), None, None)))]))
    out.append(("field-id-negative", [("struct", "S", (("a", -1, U(8), None, None), ("b", 0, U(16), None, None)))]))
    out.append(("array-size-beyond-u32", [("struct", "S", (("arr", 0, ("arr", U(8), 4294967298), None, None),))]))
    out.append(("service-ids-beyond-u32", [S1, ("service", "Svc", 4294967297, (("get", -2, "S", "S"),))]))
    # 4. bindings: rename x extension fields (every value form) x signal blocks
    forms = VALUE_FORMS if tier != "quick" else VALUE_FORMS[:9] + VALUE_FORMS[11:15] + VALUE_FORMS[16:19] + VALUE_FORMS[20:21] + VALUE_FORMS[24:26]
    for rename in (None, "Ren"):
        for nsig in (0, 1, 2):
            sigs = tuple(("b" if j == 0 else "c", (("endianess", "big"), ("k%d" % j, j))) for j in range(nsig))
            for v in forms:
                out.append(("impl", [("struct", "B0", (("b", 0, U(8), None, None), ("c", 1, U(8), None, None))), ("impl", "can", "B0", rename, (("id", 10), ("key", v)), sigs)]))
            # zero extension fields (only legal when a signal block is present)
            if nsig:
                out.append(("impl", [("struct", "B0", (("b", 0, U(8), None, None), ("c", 1, U(8), None, None))), ("impl", "can", "B0", rename, (), sigs)]))
    # extension-field keys named like attributes of the nodes themselves (meta, name, type, fields, signals ...)
    for key in ("meta", "name", "type", "fields", "signals", "protocol", "version"):
        out.append(("impl", [("struct", "B0", (("b", 0, U(8), None, None), ("c", 1, U(8), None, None))), ("impl", "can", "B0", None, (("id", 10), (key, "powertrain")), (("b", ((key, [1, 2]), ("scale", 2))),)), ("device", "ecu", ((key, 7), ("node", 3)))]))
    # extension fields written after / between the signal blocks
    for layout in ("signals-first", "interleaved"):
        for rename in (None, "Ren"):
            out.append(("impl-layout", [("struct", "B0", (("b", 0, U(8), None, None), ("c", 1, U(8), None, None))), ("impl", "can", "B0", rename, (("id", 10), ("device", "ecu"), ("bus", "b1")), (("b", (("endianess", "big"),)), ("c", (("mux_count", 2),))), layout)]))
    # signal blocks with every value form
    for v in forms:
        out.append(("signal", [BASE_STRUCT, ("impl", "p1", "B0", None, (), (("b", (("key", v),)),))]))
    # two bindings of one struct, binding before/after other declarations
    out.append(("impl2", [BASE_STRUCT, ("impl", "can", "B0", None, (("id", 1),), ()), BASE_ENUM, ("impl", "can", "B0", "Other", (("id", 2),), ()), ("impl", "dbg", "B0", None, (("k", "v"),), ())]))
    # 5. services and devices
    s2 = ("struct", "B1", (("q", 0, I(8), None, None),))
    for methods in (
        (("m", 0, "B0", "B1"),),
        (("m", 0, "B0", "B0"),),
        (("m", 1, "B0", "B1"), ("n", 0, "B1", "B0")),
        (("m", 255, "B1", "B1"), ("n", 7, "B1", "B1")),
    ):
        for sid in (0, 3):
            out.append(("service", [BASE_STRUCT, s2, ("service", "Svc", sid, methods)]))
    # ids and sizes at the byte boundaries INSIDE the u32 slots of the record
    for sid, mid in ((255, 256), (256, 255), (65535, 65536), (65536, 65535), (2147483648, 4294967295), (4294967295, 2147483647)):
        out.append(("service", [BASE_STRUCT, s2, ("service", "Svc", sid, (("m", mid, "B0", "B1"), ("n", 0, "B1", "B0")))]))
    for size in (255, 256, 65535, 65536, 4294967295):
        out.append(("array-size-in-u32", [("struct", "S", (("arr", 0, ("arr", U(8), size), None, None), ("b", 70000, U(16), None, None)))]))
    out.append(("service2", [BASE_STRUCT, s2, ("service", "Svc", 0, (("m", 0, "B0", "B1"),)), ("service", "Tvc", 1, (("m", 0, "B1", "B0"),))]))
    for fields in (
        (("services", [("id", "Svc")]),),
        (("k", 1),),
        (("services", [("id", "Svc"), ("id", "Tvc")]), ("addr", -4), ("name", "ecu 1")),
        (("list", [1, 2]),),
    ):
        out.append(("device", [BASE_STRUCT, s2, ("service", "Svc", 0, (("m", 0, "B0", "B1"),)), ("service", "Tvc", 1, (("m", 0, "B1", "B0"),)), ("device", "dev", fields)]))
    out.append(("device2", [("device", "d1", (("a", 1),)), ("device", "d2", (("b", "x"),))]))
    # 6. identifier alphabet in every identifier slot
    for ident in IDENTS:
        out.append(("ident-struct", [("struct", ident, (("b", 0, U(8), None, None),)), ("struct", "S", (("x", 0, ("ref", ident), None, None), ("y", 1, Opt(Arr(("ref", ident), 2)), None, None)))]))
        out.append(("ident-field", [("struct", "S", ((ident, 0, U(8), None, None), ("y", 1, U(8), None, None)))]))
        out.append(("ident-enum", [("enum", ident, (("e0", 0),)), ("struct", "S", (("x", 0, ("ref", ident), None, None),))]))
        out.append(("ident-enumerator", [("enum", "E", ((ident, 0), ("z", 1)))]))
        out.append(("ident-impl", [BASE_STRUCT, ("impl", ident, "B0", ident, ((ident, ("id", ident)),), ((ident, ((ident, 1),)),))]))
        out.append(("ident-service", [BASE_STRUCT, ("service", ident, 0, ((ident, 0, "B0", "B0"),)), ("device", ident, ((ident, [("id", ident)]),))]))
    # 7. everything together, twice, in two declaration orders
    full = [
        BASE_ENUM,
        BASE_STRUCT,
        ("struct", "S", (("x", 1, Opt(Arr(("ref", "B0"), 2)), "m", (-1.0, 1.0)), ("y", 0, Dyn(("ref", "E0")), None, None), ("z", 2, STR, "s", None))),
        ("impl", "can", "S", "SS", (("id", 100), ("bus", "b1"), ("device", ("id", "ecu"))), (("x", (("mux_count", 2),)),)),
        ("service", "Svc", 0, (("m", 0, "S", "B0"),)),
        ("device", "ecu", (("services", [("id", "Svc")]),)),
    ]
    out.append(("full", full))
    out.append(("full", [full[1], full[0], full[2], full[4], full[5], full[3]]))
    transitions += len(out)
    return out, transitions
