// Generic harness for the C++ code produced by fcp_cpp (C03, C13, C15, C18).
// One JSON request per stdin line, one JSON answer per stdout line.
#include "all_headers.h"

#include <iostream>
#include <string>

using json = nlohmann::json;

static json frame_to_json(const fcp::can::frame_t& f) {
    json j;
    j["sid"] = f.sid;
    j["dlc"] = f.dlc;
    j["bus"] = json::array();
    for (auto c : f.bus) j["bus"].push_back(static_cast<int>(static_cast<unsigned char>(c)));
    j["data"] = json::array();
    for (auto b : f.data) j["data"].push_back(static_cast<int>(b));
    return j;
}

static fcp::can::frame_t frame_from_json(const json& j) {
    fcp::can::frame_t f{};
    f.sid = j["sid"].get<std::uint16_t>();
    f.dlc = j["dlc"].get<std::uint8_t>();
    for (std::size_t i = 0; i < 4; i++) f.bus[i] = static_cast<char>(j["bus"][i].get<int>());
    for (std::size_t i = 0; i < 8; i++) f.data[i] = static_cast<std::uint8_t>(j["data"][i].get<int>());
    return f;
}

int main(int argc, char** argv) {
    fcp::StaticSchema st;
    fcp::dynamic::DynamicSchema dyn;
    std::string dyn_err = "no reflection binary given";
    if (argc > 1) {
        try {
            dyn.LoadBinarySchemaFromFile(argv[1]);
            dyn_err.clear();
        } catch (const std::exception& e) {
            dyn_err = std::string("load failed: ") + e.what();
        }
    }
    fcp::can::Can can_static{std::make_shared<fcp::can::CanStaticSchema>()};
    fcp::can::Can can_dynamic{std::make_shared<fcp::can::CanDynamicSchema>(dyn)};

    std::string line;
    while (std::getline(std::cin, line)) {
        json out = json::object();
        try {
            json req = json::parse(line);
            std::string op = req["op"].get<std::string>();
            if (op == "enc") {
                auto r = st.EncodeJson(req["name"].get<std::string>(), req["value"]);
                if (r.has_value()) out["bytes"] = r.value(); else out["null"] = true;
            } else if (op == "dec") {
                auto r = st.DecodeJson(req["name"].get<std::string>(), req["bytes"].get<std::vector<std::uint8_t>>());
                if (r.has_value()) out["value"] = r.value(); else out["null"] = true;
            } else if (op == "dyn_enc") {
                if (!dyn_err.empty()) throw std::runtime_error(dyn_err);
                auto r = dyn.EncodeJson(req["name"].get<std::string>(), req["value"]);
                if (r.has_value()) out["bytes"] = r.value(); else out["null"] = true;
            } else if (op == "dyn_dec") {
                if (!dyn_err.empty()) throw std::runtime_error(dyn_err);
                auto r = dyn.DecodeJson(req["name"].get<std::string>(), req["bytes"].get<std::vector<std::uint8_t>>());
                if (r.has_value()) out["value"] = r.value(); else out["null"] = true;
            } else if (op == "dyn_load") {
                // load ANOTHER reflection binary into the same DynamicSchema object
                auto b = req["bytes"].get<std::vector<std::uint8_t>>();
                dyn.LoadBinarySchema(std::string(b.begin(), b.end()));
                dyn_err.clear();
                out["loaded"] = true;
            } else if (op == "can_enc") {
                bool dynamic = req["which"].get<std::string>() == "dynamic";
                if (dynamic && !dyn_err.empty()) throw std::runtime_error(dyn_err);
                auto r = (dynamic ? can_dynamic : can_static).Encode(req["name"].get<std::string>(), req["value"]);
                if (r.has_value()) out["frame"] = frame_to_json(r.value()); else out["null"] = true;
            } else if (op == "can_dec") {
                bool dynamic = req["which"].get<std::string>() == "dynamic";
                if (dynamic && !dyn_err.empty()) throw std::runtime_error(dyn_err);
                auto r = (dynamic ? can_dynamic : can_static).Decode(frame_from_json(req["frame"]));
                if (r.has_value()) { out["name"] = r.value().first; out["value"] = r.value().second; } else out["null"] = true;
            } else if (op == "ping") {
                out["pong"] = true;
            } else {
                out["exc"] = "unknown op";
            }
        } catch (const std::exception& e) {
            out = json::object();
            out["exc"] = e.what();
        }
        std::cout << out.dump(-1, ' ', false, json::error_handler_t::replace) << "\n";
    }
    return 0;
}
