"""Reference well-formedness predicate of C09, three-valued. No imports from fcp."""

from __future__ import annotations

from . import refcodec, reflayout

MUST_PASS, MUST_FAIL, UNSPECIFIED = "MUST_PASS", "MUST_FAIL", "UNSPECIFIED"


def general_violations(decls):
    out = []
    structs = [d for d in decls if d[0] == "struct"]
    enums = [d for d in decls if d[0] == "enum"]
    impls = [d for d in decls if d[0] == "impl"]
    services = [d for d in decls if d[0] == "service"]
    devices = [d for d in decls if d[0] == "device"]
    tnames = [d[1] for d in structs + enums]
    if len(set(tnames)) != len(tnames):
        out.append("duplicate-type-name")
    pairs = [((d[3] if d[3] is not None else d[2]), d[1]) for d in impls]
    if len(set(pairs)) != len(pairs):
        out.append("duplicate-impl")
    for s in structs:
        fn = [f[0] for f in s[2]]
        if len(set(fn)) != len(fn):
            out.append("duplicate-field")
        if not fn:
            out.append("empty-struct")
    for e in enums:
        n = [p[0] for p in e[2]]
        v = [p[1] for p in e[2]]
        if len(set(n)) != len(n):
            out.append("duplicate-enumerator-name")
        if len(set(v)) != len(v):
            out.append("duplicate-enumerator-value")
    snames = {s[1] for s in services}
    for d in devices:
        f = dict(d[2])
        if "services" in f:
            listed = f["services"] if isinstance(f["services"], list) else [f["services"]]
            for s in listed:
                name = s[1] if isinstance(s, tuple) else s
                if name not in snames:
                    out.append("device-unknown-service")
    return out


def plugin_violations(decls, config):
    """Returns (violations, unspecified reasons) for the plug-in constraint of `config`."""
    if config == "general":
        return [], []
    structs = {d[1]: d for d in decls if d[0] == "struct"}
    impls = [d for d in decls if d[0] == "impl"]
    v, u = [], []
    for d in impls:
        if d[2] not in structs:
            v.append("impl-unknown-struct")
    if config == "dbc":
        ids = [dict(d[4]).get("id") for d in impls if d[1] == "can" and dict(d[4]).get("id") is not None]
        if len(set(ids)) != len(ids):
            v.append("duplicate-can-id")
    if config == "c":
        env = refcodec.Env(decls)
        dup_types = len({d[1] for d in decls if d[0] in ("struct", "enum")}) != len([d for d in decls if d[0] in ("struct", "enum")])
        for d in impls:
            if d[2] not in structs:
                continue
            try:
                size = reflayout.total_bits(env, d[2])
            except Exception:  # noqa  (variable-size or unresolvable: C14's subject)
                u.append("size-undefined")
                continue
            if size > 64:
                if d[1] == "can":
                    v.append("can-message-over-64")
                else:
                    u.append("non-can-binding-over-64")
            if dup_types:
                u.append("size-with-duplicate-types")
    return v, u


def verdict(decls, config):
    g = general_violations(decls)
    p, u = plugin_violations(decls, config)
    if g or p:
        return MUST_FAIL, g + p
    if u:
        return UNSPECIFIED, u
    return MUST_PASS, []
