"""Schema description -> expected parse tree (the to_dict() image) and expected
reflection record. No imports from fcp."""

from __future__ import annotations


class Exact:
    """Marks a value that must match exactly (user data), not as a projection."""

    def __init__(self, v):
        self.v = v

    def __repr__(self):
        return "Exact(%r)" % (self.v,)


def kinds_of(decls):
    k = {}
    for d in decls:
        if d[0] == "struct":
            k[d[1]] = "Struct"
        elif d[0] == "enum":
            k[d[1]] = "Enum"
    return k


def type_dict(t, kinds):
    k = t[0]
    if k == "u":
        return {"name": "u%d" % t[1], "type": "unsigned"}
    if k == "i":
        return {"name": "i%d" % t[1], "type": "signed"}
    if k == "f32":
        return {"name": "f32", "type": "float"}
    if k == "f64":
        return {"name": "f64", "type": "double"}
    if k == "str":
        return {"type": "str"}
    if k == "ref":
        return {"name": t[1], "type": kinds[t[1]]}
    if k == "arr":
        return {"underlying_type": type_dict(t[1], kinds), "size": t[2], "type": "Array"}
    if k == "dyn":
        return {"underlying_type": type_dict(t[1], kinds), "type": "DynamicArray"}
    if k == "opt":
        return {"underlying_type": type_dict(t[1], kinds), "type": "Optional"}
    raise ValueError(t)


def conv_value(v):
    if isinstance(v, tuple) and v and v[0] == "id":
        return v[1]
    if isinstance(v, list):
        return [conv_value(x) for x in v]
    return v


def expected(decls, kinds=None):
    kinds = dict(kinds or {})
    kinds.update(kinds_of(decls))
    out = {"structs": [], "enums": [], "impls": [], "services": [], "devices": [], "version": "3.0"}
    for d in decls:
        if d[0] == "struct":
            fields = []
            for f in d[2]:
                fd = {"name": f[0], "field_id": f[1], "type": type_dict(f[2], kinds)}
                if len(f) > 3 and f[3] is not None:
                    fd["unit"] = f[3]
                if len(f) > 4 and f[4] is not None:
                    fd["min_value"] = Exact(float(f[4][0]))
                    fd["max_value"] = Exact(float(f[4][1]))
                fields.append(fd)
            out["structs"].append({"name": d[1], "fields": fields})
            out["impls"].append({"name": d[1], "protocol": "default", "type": d[1], "fields": Exact({}), "signals": []})
        elif d[0] == "enum":
            out["enums"].append({"name": d[1], "enumeration": [{"name": n, "value": Exact(v)} for n, v in d[2]]})
        elif d[0] == "impl":
            _, proto, typ, as_name, fields, signals = d[:6]
            out["impls"].append(
                {
                    "name": as_name if as_name is not None else typ,
                    "protocol": proto,
                    "type": typ,
                    "fields": Exact({k: conv_value(v) for k, v in fields}),
                    "signals": [{"name": sn, "fields": Exact({k: conv_value(v) for k, v in sf})} for sn, sf in signals],
                }
            )
        elif d[0] == "service":
            _, name, sid, methods = d
            out["services"].append({"name": name, "id": sid, "methods": [{"name": m[0], "id": m[1], "input": m[2], "output": m[3]} for m in methods]})
        elif d[0] == "device":
            out["devices"].append({"name": d[1], "fields": Exact({k: conv_value(v) for k, v in d[2]})})
    return out


def _unescaped(e):
    return e.replace('\\"', '"').replace("\\\\", "\\")


def _same_text(e, a):
    """A string literal is expected as written between its quotes; a front end that resolves the escapes \\" and \\\\ is
    as faithful (the project keeps them raw at present), so either spelling of the same text is accepted."""
    return isinstance(e, str) and isinstance(a, str) and "\\" in e and a == _unescaped(e)


def project_diff(exp, act, path=""):
    """Differences between an expected projection and an actual tree: expected keys must be
    present and equal; extra keys in actual dicts are ignored; lists must have equal length."""
    if isinstance(exp, Exact):
        e = exp.v
        if _same_text(e, act):
            return []
        if type(e) is not type(act) or e != act or (isinstance(e, float) and repr(e) != repr(act)):
            return ["%s: expected %r got %r" % (path, e, act)]
        if isinstance(e, dict):
            out = []
            if list(e.keys()) != list(act.keys()):
                out.append("%s: key order %r vs %r" % (path, list(e), list(act)))
            for k in e:
                if type(e[k]) is not type(act[k]):
                    out.append("%s/%s: type %s vs %s" % (path, k, type(e[k]).__name__, type(act[k]).__name__))
            return out
        return []
    if isinstance(exp, dict):
        if not isinstance(act, dict):
            return ["%s: expected dict got %r" % (path, act)]
        out = []
        for k, v in exp.items():
            if k not in act:
                out.append("%s/%s: missing" % (path, k))
            else:
                out += project_diff(v, act[k], path + "/" + k)
        return out
    if isinstance(exp, list):
        if not isinstance(act, list):
            return ["%s: expected list got %r" % (path, act)]
        if len(exp) != len(act):
            return ["%s: expected %d elements got %d (%r)" % (path, len(exp), len(act), [a.get("name") if isinstance(a, dict) else a for a in act])]
        out = []
        for i, (e, a) in enumerate(zip(exp, act)):
            out += project_diff(e, a, "%s[%d]" % (path, i))
        return out
    if _same_text(exp, act):
        return []
    if type(exp) is not type(act) or exp != act:
        return ["%s: expected %r got %r" % (path, exp, act)]
    return []


# ---------------------------------------------------------------- reflection


def type_chain(t, kinds):
    k = t[0]
    if k in ("u", "i"):
        return [{"name": "%s%d" % (k, t[1]), "type": "unsigned" if k == "u" else "signed", "size": 1}]
    if k == "f32":
        return [{"name": "f32", "type": "float", "size": 1}]
    if k == "f64":
        return [{"name": "f64", "type": "double", "size": 1}]
    if k == "str":
        return [{"name": "str", "type": "str", "size": 1}]
    if k == "ref":
        return [{"name": t[1], "type": kinds[t[1]], "size": 1}]
    if k == "arr":
        return [{"name": "Array", "type": "Array", "size": t[2]}] + type_chain(t[1], kinds)
    if k == "dyn":
        return [{"name": "DynamicArray", "type": "DynamicArray", "size": 1}] + type_chain(t[1], kinds)
    if k == "opt":
        return [{"name": "Optional", "type": "Optional", "size": 1}] + type_chain(t[1], kinds)
    raise ValueError(t)


def expected_reflection(decls):
    kinds = kinds_of(decls)
    out = {"tag": [0x66, 0x63, 0x70], "version": 3000, "structs": [], "enums": [], "impls": [], "services": []}
    for d in decls:
        if d[0] == "struct":
            fields = []
            for f in d[2]:
                fields.append(
                    {
                        "name": f[0],
                        "field_id": f[1],
                        "type": type_chain(f[2], kinds),
                        "unit": (f[3] if len(f) > 3 else None),
                        "min_value": (float(f[4][0]) if len(f) > 4 and f[4] is not None else None),
                        "max_value": (float(f[4][1]) if len(f) > 4 and f[4] is not None else None),
                    }
                )
            out["structs"].append({"name": d[1], "fields": fields})
            out["impls"].append({"name": d[1], "protocol": "default", "type": d[1], "fields": [], "signals": []})
        elif d[0] == "enum":
            out["enums"].append({"name": d[1], "enumeration": [{"name": n, "value": v} for n, v in d[2]]})
        elif d[0] == "impl":
            _, proto, typ, as_name, fields, signals = d[:6]
            out["impls"].append(
                {
                    "name": as_name if as_name is not None else typ,
                    "protocol": proto,
                    "type": typ,
                    "fields": [{"name": k, "value": str(conv_value(v))} for k, v in fields],
                    "signals": [{"name": sn, "fields": [{"name": k, "value": str(conv_value(v))} for k, v in sf]} for sn, sf in signals],
                }
            )
        elif d[0] == "service":
            _, name, sid, methods = d
            out["services"].append({"name": name, "id": sid, "methods": [{"name": m[0], "id": m[1], "input": m[2], "output": m[3]} for m in methods]})
    return out
