"""./run <id> [quick|thorough] ; ./run replay <file> ; ./run all [quick|thorough]"""

import importlib
import json
import os
import sys

CHECKS = {
    "C01": ("codec", True),
    "C02": ("codec", True),
    "C16": ("codec", True),
    "C04": ("c04", False),
    "C07": ("c07", False),
    "C12": ("c12", False),
    "C08": ("c08", False),
    "C20": ("c20", False),
    "C11": ("c11", False),
    "C09": ("c09", False),
    "C10": ("c10", False),
    "C17": ("c17", False),
    "C06": ("c06", False),
    "C05": ("c05", False),
    "C19": ("c19", False),
    "C14": ("c14", False),
    "C03": ("cpp", True),
    "C13": ("cpp", True),
    "C18": ("c18", False),
    "C15": ("c15", False),
}


def run_check(prop, tier):
    modname, takes_prop = CHECKS[prop]
    mod = importlib.import_module("fcpmc.checks." + modname)
    return mod.run(prop, tier) if takes_prop else mod.run(tier)


def main(argv):
    if len(argv) < 2:
        print(__doc__)
        return 2
    cmd = argv[1]
    tier = argv[2] if len(argv) > 2 else os.environ.get("VERIF_TIER", "quick")
    if cmd == "replay":
        doc = json.load(open(argv[2]))
        modname, _ = CHECKS[doc["property"]]
        mod = importlib.import_module("fcpmc.checks." + modname)
        return mod.replay(doc)
    if cmd == "all":
        rc = 0
        for p in sorted(CHECKS):
            rc |= os.system("%s %s %s" % (os.path.join(os.path.dirname(os.path.dirname(os.path.abspath(__file__))), "run"), p, tier)) >> 8
        return rc
    if cmd not in CHECKS:
        print("unknown check", cmd)
        return 2
    if tier not in ("quick", "thorough"):
        tier = "quick"
    return run_check(cmd, tier)


if __name__ == "__main__":
    sys.exit(main(sys.argv))
