"""Reference model of the packed CAN layout. No imports from fcp.

layout(env, struct_name, unroll) -> [Leaf(name, start, width, type)] where nested
structs are flattened with 'a::b' names, arrays unrolled to name_i when asked,
fields in ascending field id, starts are the running sum from 0 and width is the
wire width of the leaf type."""

from __future__ import annotations

from collections import namedtuple

from .refcodec import enum_width

Leaf = namedtuple("Leaf", "name start width type field")


class NotFixed(Exception):
    pass


def wire_width(env, t):
    k = t[0]
    if k in ("u", "i"):
        return t[1]
    if k == "f32":
        return 32
    if k == "f64":
        return 64
    if k == "arr":
        return t[2] * wire_width(env, t[1])
    if k == "ref":
        if env.kind(t[1]) == "enum":
            return enum_width(env.enums[t[1]])
        return sum(wire_width(env, f[2]) for f in env.structs[t[1]])
    raise NotFixed(t)


def layout(env, struct_name, unroll):
    out = []
    pos = [0]

    def field(name, t, prefix, fname):
        k = t[0]
        if k == "ref" and env.kind(t[1]) == "struct":
            struct(t[1], prefix + name + "::")
        elif k == "arr" and unroll:
            for i in range(t[2]):
                field("%s_%d" % (name, i), t[1], prefix, fname)
        else:
            w = wire_width(env, t)
            out.append(Leaf(prefix + name, pos[0], w, t, fname))
            pos[0] += w

    def struct(sname, prefix):
        for fname, _fid, ft in sorted(env.structs[sname], key=lambda f: f[1]):
            field(fname, ft, prefix, fname)

    struct(struct_name, "")
    return out


def total_bits(env, struct_name):
    return wire_width(env, ("ref", struct_name))


def pack(env, struct_name, value):
    """Frame bits of a value according to the layout (little-endian leaves): int, nbits."""
    from . import refcodec

    return int.from_bytes(refcodec.encode(env, struct_name, value), "little"), refcodec.bit_length(env, struct_name, value)
