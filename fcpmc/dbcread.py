"""A small independent reader for the DBC lines the property talks about:
BU_, BO_, SG_ (incl. multiplexer indicator), SIG_VALTYPE_, SG_MUL_VAL_."""

from __future__ import annotations

import re

BO_RE = re.compile(r"^BO_ (\d+) (\w+): (\d+) (\S+)")
SG_RE = re.compile(r'^\s*SG_ (\w+)\s*(M|m\d+M?|)\s*: (\d+)\|(\d+)@([01])([+-]) \(([^,]+),([^)]+)\) \[([^|]*)\|([^\]]*)\] "([^"]*)"\s*(.*)$')
VT_RE = re.compile(r"^SIG_VALTYPE_ (\d+) (\w+)\s*:\s*(\d)\s*;")
LONG_SG_RE = re.compile(r'^BA_ "SystemSignalLongSymbol" SG_ (\d+) (\w+) "([^"]*)";')
LONG_BO_RE = re.compile(r'^BA_ "SystemMessageLongSymbol" BO_ (\d+) "([^"]*)";')
MUL_RE = re.compile(r"^SG_MUL_VAL_ (\d+) (\w+) (\w+) ([^;]*);")


def read(text):
    """-> {"nodes": [...], "messages": {frame_id: {...}}, "order": [frame ids in file order]}"""
    out = {"nodes": [], "messages": {}, "order": []}
    cur = None
    long_sg, long_bo = [], []
    for raw in text.replace("\r\n", "\n").split("\n"):
        line = raw.rstrip()
        if line.startswith("BU_:"):
            out["nodes"] = line[4:].split()
            continue
        m = BO_RE.match(line)
        if m:
            fid = int(m.group(1))
            cur = {"id": fid & 0x1FFFFFFF, "extended": bool(fid & 0x80000000), "name": m.group(2), "length": int(m.group(3)), "sender": m.group(4), "signals": {}, "signal_order": []}
            out["messages"][fid] = cur
            out["order"].append(fid)
            continue
        m = SG_RE.match(line)
        if m and cur is not None:
            name, mux, start, length, order, sign, scale, offset, mn, mx, unit, recv = m.groups()
            cur["signals"][name] = {
                "name": name,
                "mux": mux,
                "start": int(start),
                "length": int(length),
                "byte_order": "little" if order == "1" else "big",
                "signed": sign == "-",
                "scale": float(scale),
                "offset": float(offset),
                "unit": unit,
                "valtype": 0,
                "mul_val": None,
            }
            cur["signal_order"].append(name)
            continue
        if line and not line.startswith((" ", "\t")) and not line.startswith("SG_"):
            if not line.startswith(("SIG_VALTYPE_", "SG_MUL_VAL_")):
                cur = cur if line.startswith("BO_") else None if line.startswith(("CM_", "BA_", "VAL_", "BO_TX_BU_")) else cur
        m = LONG_SG_RE.match(line)
        if m:
            long_sg.append((int(m.group(1)), m.group(2), m.group(3)))
            continue
        m = LONG_BO_RE.match(line)
        if m:
            long_bo.append((int(m.group(1)), m.group(2)))
            continue
        m = VT_RE.match(line)
        if m:
            fid, name, vt = int(m.group(1)), m.group(2), int(m.group(3))
            if fid in out["messages"] and name in out["messages"][fid]["signals"]:
                out["messages"][fid]["signals"][name]["valtype"] = vt
            continue
        m = MUL_RE.match(line)
        if m:
            fid, name, muxer, ranges = int(m.group(1)), m.group(2), m.group(3), m.group(4)
            if fid in out["messages"] and name in out["messages"][fid]["signals"]:
                out["messages"][fid]["signals"][name]["mul_val"] = (muxer, ranges.strip())
    # symbols longer than 32 characters are written shortened, with the full name in an attribute
    for fid, short, full in long_sg:
        msg = out["messages"].get(fid)
        if msg and short in msg["signals"] and full not in msg["signals"]:
            sig = msg["signals"].pop(short)
            sig["name"] = full
            msg["signals"][full] = sig
            msg["signal_order"] = [full if n == short else n for n in msg["signal_order"]]
            for other in msg["signals"].values():
                if other["mul_val"] and other["mul_val"][0] == short:
                    other["mul_val"] = (full, other["mul_val"][1])
    for fid, full in long_bo:
        if fid in out["messages"]:
            out["messages"][fid]["name"] = full
    return out


def signal_bits(sig):
    """Set of frame bit positions (byte*8 + bit, bit 0 = LSB) a signal occupies."""
    if sig["byte_order"] == "little":
        return set(range(sig["start"], sig["start"] + sig["length"]))
    # Motorola: start is the MSB position; walk down within the byte, then to bit 7 of the next byte
    bits = set()
    pos = sig["start"]
    for _ in range(sig["length"]):
        bits.add(pos)
        if pos % 8 == 0:
            pos += 15
        else:
            pos -= 1
    return bits
