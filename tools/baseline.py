#!/usr/bin/env python3
"""Run the repository's pinned test suite and compare with BASELINE.json's stable_pass list.
usage: baseline.py [repo]   exit 0 iff every stable_pass test passed."""
import json, os, subprocess, sys, tempfile, xml.etree.ElementTree as ET

repo = sys.argv[1] if len(sys.argv) > 1 else "/repo"
base = json.load(open("/root/.vp/BASELINE.json"))
with tempfile.TemporaryDirectory() as td:
    xml = os.path.join(td, "j.xml")
    env = dict(os.environ)
    for k in ("FCP_CORE_VERIF", "PYTHONPATH", "FCPMC_REPO"):
        env.pop(k, None)
    if os.path.realpath(repo) != "/repo":
        env["PYTHONPATH"] = os.path.join(repo, "src")  # a scratch worktree: do not import /repo/src through the editable install
    p = subprocess.run(
        ["/venv/bin/python", "-m", "pytest", "-ra", "-q", "-p", "no:cacheprovider", "--timeout=900",
         "--continue-on-collection-errors", "--junitxml=" + xml],
        cwd=repo, env=env, stdout=subprocess.PIPE, stderr=subprocess.STDOUT, text=True)
    passed = set()
    for tc in ET.parse(xml).getroot().iter("testcase"):
        ok = not any(c.tag in ("failure", "error", "skipped") for c in tc)
        if ok:
            passed.add(tc.get("classname") + "::" + tc.get("name"))
missing = [t for t in base["stable_pass"] if t not in passed]
print("passed=%d stable_pass=%d missing=%d" % (len(passed), len(base["stable_pass"]), len(missing)))
for m in missing[:20]:
    print("  NOT PASSING:", m[:200])
print(p.stdout.strip().splitlines()[-1])
sys.exit(1 if missing else 0)
