#!/bin/bash
# round 11: seedcheck of every /tmp/seed11/C*/r11m* against its own property's check (+ related), several mutants at a time
# (each mutant has its own scratch worktree /tmp/sc/<name>); output per mutant in /tmp/seed11/<C>-<m>.log
declare -A REL=( [C01]="C01 C02" [C02]="C02 C01" [C03]="C03 C13 C17" [C04]="C04 C05" [C05]="C05 C04 C10" [C06]="C06 C19" [C07]="C07 C12 C08" [C08]="C08 C20" [C09]="C09" [C10]="C10" [C11]="C11" [C12]="C12 C07 C17" [C13]="C13 C03" [C14]="C14 C09 C10" [C15]="C15" [C16]="C16" [C17]="C17 C20 C10" [C18]="C18" [C19]="C19 C06" [C20]="C20 C08" )
here="$(dirname "$0")"
for d in ${@:-/tmp/seed11/C*/r11m*}; do
  [ -f "$d/patch.diff" ] || continue
  c=$(basename $(dirname $d))
  echo "$d ${REL[$c]}"
done | xargs -P 5 -L 1 bash -c 'd=$0; c=$(basename $(dirname $d)); { echo "=== $c/$(basename $d)"; '"$here"'/seedcheck.sh "$d" "$@"; } > /tmp/seed11/$c-$(basename $d).log 2>&1'
cat /tmp/seed11/*.log
