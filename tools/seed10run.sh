#!/bin/bash
# serial seedcheck of all round-4 mutants against their own property's check (+ related)
declare -A REL=( [C01]="C01 C02" [C02]="C02 C01" [C03]="C03 C13 C17" [C04]="C04 C05" [C05]="C05 C04 C10" [C06]="C06 C19" [C07]="C07 C12 C08" [C08]="C08 C20" [C09]="C09" [C10]="C10" [C11]="C11" [C12]="C12 C07 C17" [C13]="C13 C03" [C14]="C14 C09 C10" [C15]="C15" [C16]="C16" [C17]="C17 C20" [C18]="C18" [C19]="C19 C06" [C20]="C20 C08" )
for d in /tmp/seed10/C*/r10m*; do
  c=$(basename $(dirname $d))
  echo "=== $c/$(basename $d)"
  "$(dirname "$0")/seedcheck.sh" $d ${REL[$c]}
done
