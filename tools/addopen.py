#!/usr/bin/env python3
"""tools/addopen.py <property> <class_key> <what_fails> <why_not_fixed> [example-json] -- append an 'open' entry"""
import json, sys
p = "/verif/known_findings.json"
d = json.load(open(p))
e = {"property": sys.argv[1], "status": "open", "class_key": sys.argv[2], "what_fails": sys.argv[3], "why_not_fixed": sys.argv[4]}
if len(sys.argv) > 5:
    e["example"] = json.loads(sys.argv[5])
assert not any(f.get("class_key") == e["class_key"] for f in d["findings"])
# open entries stay grouped before the fixed ones
idx = max(i for i, f in enumerate(d["findings"]) if f.get("status") == "open") + 1
d["findings"].insert(idx, e)
json.dump(d, open(p, "w"), indent=1)
open(p, "a").write("\n")
