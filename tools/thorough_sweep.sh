#!/bin/bash
# tools/thorough_sweep.sh [ids...] : every check's thorough tier, serially, from the copy of /verif this script lives in
cd "$(dirname "$0")/.."
ids=("$@"); [ ${#ids[@]} -eq 0 ] && ids=(C01 C02 C04 C05 C07 C08 C12 C20 C10 C17 C11 C06 C14 C15 C18 C03 C13 C19 C09 C16)
fail=0
for c in "${ids[@]}"; do
  s=$(date +%s)
  out=$(FCPMC_CACHE=${FCPMC_CACHE:-/verif/.cache} ./run $c thorough 2>&1); rc=$?
  echo "$c thorough rc=$rc $(( $(date +%s) - s ))s | $(echo "$out" | grep -E '^\[C' | cut -c1-200)"
  [ $rc -ne 0 ] && { fail=1; echo "$out" | grep -E 'VIOLATION|class=' | head -6; }
done
echo "SWEEP done fail=$fail"
