#!/usr/bin/env python3
"""tools/addfixed.py <property> <commit> <what failed>  -- append a 'fixed' entry to known_findings.json"""
import json, sys
p = "/verif/known_findings.json"
d = json.load(open(p))
prop, commit, what = sys.argv[1], sys.argv[2], " ".join(sys.argv[3:])
d["findings"].append({"property": prop, "status": "fixed", "commit": commit, "what_failed": what, "line": "fixed: property=%s %s %s" % (prop, commit, what)})
json.dump(d, open(p, "w"), indent=1)
open(p, "a").write("\n")
