#!/bin/bash
# tools/seedregress.sh [ids...]  -- for every seeded/<id>: scratch worktree of /repo HEAD + patch.diff, run the checks
# meta.json lists under detected_by (quick tier, FCPMC_REPO=<worktree>), print whether at least one reports a violation.
# Serial on purpose.  Output: one line per mutant; summary at the end.
V="${VERIF_ROOT:-$(cd "$(dirname "$0")/.." && pwd)}"; cd "$V"
ids=("$@"); [ ${#ids[@]} -eq 0 ] && ids=($(ls seeded))
missed=0; n=0
for id in "${ids[@]}"; do
  if python3 -c "import json,sys;sys.exit(0 if json.load(open('$V/seeded/$id/meta.json')).get('obsolete') else 1)"; then echo "$id: obsolete (no longer breaks the property, see meta.json)"; continue; fi
  wt=/tmp/sr/$id; mkdir -p /tmp/sr
  git -C /repo worktree remove --force $wt >/dev/null 2>&1
  git -C /repo worktree add -q --detach $wt HEAD || { echo "$id: WORKTREE FAILED"; continue; }
  if ! git -C $wt apply $V/seeded/$id/patch.diff 2>/dev/null; then echo "$id: PATCH DOES NOT APPLY"; missed=$((missed+1)); git -C /repo worktree remove --force $wt; continue; fi
  checks=$(python3 -c "import json;print(' '.join(json.load(open('$V/seeded/$id/meta.json')).get('detected_by',{}).keys()))")
  [ -z "$checks" ] && checks=$(echo $id | cut -d- -f1)
  hit=""
  for c in $checks; do
    out=$(FCPMC_CACHE=/verif/.cache FCPMC_REPO=$wt FCPMC_OUT=/tmp/sr/out-$id ./run $c quick 2>&1); rc=$?
    cls=$(echo "$out" | grep -m1 'class=' | sed -E 's/.*class=([^ ]+).*/\1/' | cut -c1-110)
    if [ $rc -ne 0 ]; then hit="$hit $c($cls)"; break; fi
  done
  n=$((n+1))
  if [ -z "$hit" ]; then echo "$id: MISSED by [$checks]"; missed=$((missed+1)); else echo "$id: detected$hit"; fi
  git -C /repo worktree remove --force $wt >/dev/null 2>&1; rm -rf $wt /tmp/sr/out-$id
done
echo "SUMMARY mutants=$n missed=$missed"
