#!/bin/bash
# tools/seedcheck.sh <mutant dir containing patch.diff + demo.py|demo.sh> <check ids...>
# 1. scratch worktree of /repo HEAD + patch  2. baseline suite must still pass  3. demo: exit 0 without, non-zero with
# 4. run the given checks (quick) against the patched worktree via FCPMC_REPO.  Removes the worktree afterwards.
set -u
V="${VERIF_ROOT:-$(cd "$(dirname "$0")/.." && pwd)}"   # the copy of /verif whose checks are run (a snapshot keeps results independent of later edits)
m="$(realpath "$1")"; shift
name="$(basename "$(dirname "$m")")-$(basename "$m")"
wt="/tmp/sc/$name"
mkdir -p /tmp/sc
git -C /repo worktree remove --force "$wt" >/dev/null 2>&1
git -C /repo worktree add -q --detach "$wt" HEAD || exit 2
cleanup() { git -C /repo worktree remove --force "$wt" >/dev/null 2>&1; rm -rf "$wt"; }
trap cleanup EXIT
mname="$(basename "$m")"
mkdir -p "$wt/seeded/$mname"
for f in "$m"/*; do sed -E "s#/tmp/wt/C[0-9]+#$wt#g" "$f" > "$wt/seeded/$mname/$(basename "$f")"; done
demo() { # run the demonstration from the same relative place the author used, paths rewritten to this worktree
  local d="$wt/seeded/$mname"
  if [ -f "$d/demo.py" ]; then (cd "$wt" && PYTHONPATH="$wt/src" timeout 900 /venv/bin/python "$d/demo.py" >"$wt/.demo.out" 2>&1); else (cd "$wt" && PYTHONPATH="$wt/src" timeout 900 bash "$d/demo.sh" >"$wt/.demo.out" 2>&1); fi
}
demo; r0=$?
echo "demo without patch: exit $r0"
if ! git -C "$wt" apply "$m/patch.diff"; then echo "PATCH DOES NOT APPLY"; exit 3; fi
demo; r1=$?
echo "demo with patch:    exit $r1"; tail -3 "$wt/.demo.out" | cut -c1-200
rm -rf "$wt/.hypothesis/examples"
"$V/tools/baseline.py" "$wt" | head -4
rm -rf "$wt/.hypothesis/examples"
for c in "$@"; do
  FCPMC_CACHE=/verif/.cache FCPMC_REPO="$wt" "$V/run" "$c" quick > "/tmp/sc/$name.$c.out" 2>&1; rc=$?
  echo "check $c: rc=$rc $(grep -c '^VIOLATION' /tmp/sc/$name.$c.out) violation lines; $(grep -m1 'class=' /tmp/sc/$name.$c.out | cut -c1-160)"
done
