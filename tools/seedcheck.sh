#!/bin/bash
# tools/seedcheck.sh <mutant dir containing patch.diff + demo.py|demo.sh> <check ids...>
# 1. scratch worktree of /repo HEAD + patch  2. baseline suite must still pass  3. demo: exit 0 without, non-zero with
# 4. run the given checks (quick) against the patched worktree via FCPMC_REPO.  Removes the worktree afterwards.
set -u
m="$(realpath "$1")"; shift
name="$(basename "$(dirname "$m")")-$(basename "$m")"
wt="/tmp/sc/$name"
mkdir -p /tmp/sc
git -C /repo worktree remove --force "$wt" >/dev/null 2>&1
git -C /repo worktree add -q --detach "$wt" HEAD || exit 2
cleanup() { git -C /repo worktree remove --force "$wt" >/dev/null 2>&1; rm -rf "$wt"; }
trap cleanup EXIT
demo() { # run demo with the mutant author's paths rewritten to this worktree
  local d
  if [ -f "$m/demo.py" ]; then d="$wt/.demo.py"; else d="$wt/.demo.sh"; fi
  sed -E "s#/tmp/wt/C[0-9]+#$wt#g" "$m/demo.${d##*.}" > "$d"
  if [ "${d##*.}" = py ]; then (cd "$wt" && PYTHONPATH="$wt/src" timeout 600 /venv/bin/python "$d" >"$wt/.demo.out" 2>&1); else (cd "$wt" && PYTHONPATH="$wt/src" timeout 600 bash "$d" >"$wt/.demo.out" 2>&1); fi
}
demo; r0=$?
echo "demo without patch: exit $r0"
if ! git -C "$wt" apply "$m/patch.diff"; then echo "PATCH DOES NOT APPLY"; exit 3; fi
demo; r1=$?
echo "demo with patch:    exit $r1"; tail -3 "$wt/.demo.out" | cut -c1-200
rm -rf "$wt/.hypothesis/examples"
/verif/tools/baseline.py "$wt" | head -4
rm -rf "$wt/.hypothesis/examples"
for c in "$@"; do
  FCPMC_REPO="$wt" /verif/run "$c" quick > "/tmp/sc/$name.$c.out" 2>&1; rc=$?
  echo "check $c: rc=$rc $(grep -c '^VIOLATION' /tmp/sc/$name.$c.out) violation lines; $(grep -m1 'class=' /tmp/sc/$name.$c.out | cut -c1-160)"
done
