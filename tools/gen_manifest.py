#!/usr/bin/env python3
"""Regenerate MANIFEST.json from the table below (kept in one place so it stays consistent)."""
import json, os

HERE = os.path.dirname(os.path.dirname(os.path.abspath(__file__)))
PROPS = [json.loads(l)["id"] for l in open(os.path.join(HERE, "properties.jsonl"))]

CHECKS = {
    "C01": ("bounded-exhaustive exploration of the real parser + serde: every (alignment context, type tree) struct shape up to constructor depth 2 (thorough 3), every bit offset, widths 1..64 (thorough), every boundary-value combination, plus structs whose fields share a field id, and strings beyond 7-bit ASCII (leading U+FEFF, 2/3/4-byte characters, NUL) at every position a string can take; oracle decode(encode(v)) == v bit-for-bit",
            "exhaustive only inside the stated alphabets (boundary values, 7-bit strings, <=3 fields of the enumerated kinds); CPython, lark, pyserde trusted",
            "explicit-state enumeration of schema shapes x boundary values executed on the implementation"),
    "C02": ("same state space as C01 plus every sequence of codec calls up to length 3/4 in one process (failing calls included); oracle is a reference wire codec (bound to the 26 project vectors at the start of every run): serde.encode(v) == canonical bytes and serde.decode(canonical bytes) == v",
            "reference codec fcpmc/refcodec.py is the specification of the canonical format; pinned by the project's vectors and (C03) by the generated C++ codec",
            "explicit-state enumeration against a reference model validated on project vectors"),
    "C04": ("every fixed-size struct shape (1..3 fields, thorough 4) x every field-id permutation x unroll flag laid out by the real PackedEncoder against a reference layout and the model-free tiling invariant; every generate() history up to length 3 (4) on one live encoder by fork-snapshot; every sequence of <= 3 contexts derived from one kept base context",
            "reference layout fcpmc/reflayout.py; an unrolled array element carries the options declared for its array field; arrays next to fields named like their elements",
            "explicit-state enumeration + fork-snapshot history exploration"),
    "C07": ("every schema description of a small scope (all grammar productions, nested types to depth 2/3, every extension value form, lexer-colliding identifiers in every slot, ids and sizes at the byte boundaries inside the record's u32 slots, string literals ending in an escaped quote, enums with several enumerators of one value) x every formatting variant (incl. CRLF/CR text, no parentheses, no pipes) parsed by the real front end; oracle: independently built expected tree and cross-variant equality",
            "expected-tree builder bound to the repository's golden JSON files", "explicit-state enumeration of descriptions x formatting variants"),
    "C08": ("every placement of a referenced declaration (before/after/self/undeclared/imported before/after/nested/dotted) x every wrapper chain x interleaved unrelated declarations, module cases on a real file tree incl. one module reached along two import paths; every acyclic import graph over 4 files (and a family over 5) with one cross-file reference against a visibility model; oracle: resolution spec",
            "duplicate type names are C09's subject", "explicit-state enumeration against a resolution specification"),
    "C09": ("all schema trees of per-rule sub-scopes built through the constructors x 3 check-set configurations x every permutation of the declaration lists (incl. two CAN bindings x ids x buses none/b1/b2/default; binding/type/enum/device trees also built without source positions, i.e. with equal nodes); oracle: three-valued reference predicate + permutation invariance",
            "statement-silent cases (non-CAN binding > 64 bits under the C check set) accept either verdict", "small-scope exhaustive enumeration against a reference predicate"),
    "C10": ("for each generator every check evaluation of the verification run is made to fail in turn (fault enumeration through Verifier.register) x pre-existing directory states (incl. a missing nested directory, stale files of exactly the new size); every sequence of generations and wipes into ONE directory at one path by one manager in one process; plug-ins returning one path twice; an uncategorized check; a stub plug-in writing into sub-directories; CLI exit status; rule-violating schemas; accepted runs vs the plug-in's returned files; generate() histories by fork-snapshot; CLI",
            "an exception counts as an error report; deletions by a plug-in's own generate() on accepted schemas are not judged", "exhaustive fault-point enumeration + history exploration with directory snapshots"),
    "C11": ("every prefix of every corpus text, every single-token mutation at every token position, every token string up to length 4/5 over two 12-token alphabets, every literal slot x value form, nesting depths 100..1000 (3000) in every recursive production, every import graph over 2 (3) files, layered graphs with 2^n paths to a valid or broken leaf, main files that are not UTF-8, texts given as a string under seven states of the working directory (removed, symlink loop / dangling link / directory / file called main.fcp), and the same inside an imported module; every parse history through one Logger re-rendering earlier errors; oracle: no exception, Ok or renderable Err, cited lines exist",
            "termination decided within a 10 s alarm per input", "exhaustive enumeration of input families on the real parser"),
    "C12": ("C07's description space (incl. integers beyond the record's fixed-width slots) reflected, compared with the record computed from the description, serialized with the built-in reflection schema and decoded back; schemas split over modules; reflection repeated after every sequence of <= 2 (3) generator runs on the parsed object",
            "expected record builder fcpmc/reftree.py", "explicit-state enumeration against a reference model + round trip"),
    "C16": ("every byte truncation point of every canonical encoding of the C01 shape/value space and every length prefix replaced by {n+1,n+2,255,65536,2^31,2^32-1}; decode must raise whenever the reference decoder runs out of bits, and dynamic arrays of zero-width elements given only a count prefix (from text and from trees built through the constructors); inside a deterministic step budget linear in the input",
            "step budget counted with sys.setprofile (calls), no wall clock; termination is a bounded statement", "exhaustive fault-point enumeration (truncation, corrupted length prefixes)"),
    "C17": ("every (generator, schema) under 4/16 hash seeds in fresh processes compared file by file; every history over {parse(s), gen(g,s)} up to depth 3/4 in one process by fork-snapshot, each gen node compared with the fresh-process reference (history schemas declare fields against their ids and leave signal-block options to their defaults, so a generator that writes into the tree shows in the next one); for every schema each generator after each (thorough: each pair of) generator(s); a module file edited between two parses of the importing schema",
            "only the documented stamp line is masked", "configuration enumeration + fork-snapshot history exploration"),
    "C20": ("every closed assignment of a base schema's declarations to {main, m1, m2} x topology star/chain x path depth x mod position on a real file tree vs the single-file parse; diamond layouts (a shared module imported by main and by another module); every acyclic import graph over 4 one-struct files (ordered import lists, repeats); the same split parsed through the string entry point (also with the module called main.fcp); every injected module error must be an Err naming the module",
            "cross-file declaration order is not judged, only per-category multisets", "exhaustive enumeration of module splits, differential oracle"),
}
CHECKS.update({
    "C03": ("struct shapes (type trees to depth 2/3 x offsets, widths 1..64 in thorough, enums up to 2^63) and schema-level programs (services with every input/output pairing, several protocols, renamed and double bindings, a second default-protocol binding, a naming family for aliases / rpc wrapper names / locals / accessor-like type names, generation repeated on the same object) given to the real fcp_cpp generator, compiled with g++ -std=c++17 with a generic JSON harness; EncodeJson == reference bytes, DecodeJson(reference bytes) == value",
            "g++ 12 decides 'compiles'; finite floats over JSON; reference codec pinned by project vectors", "explicit-state enumeration of generator inputs, compiled and executed against a reference model"),
    "C05": ("CAN schemas (1..3-field (thorough 4) messages <= 64 bits over all fixed-size kinds, options declared for array fields incl. arrays of arrays, big-endian subsets, mux subsets and counts, selectors inside nested structs (one and two levels) and names beyond 32 characters, option values at the edge (mux_count alone, endianess spellings, frame ids beyond 11 bits), units at every level, 1..3 bindings over 3 buses) through the real fcp_dbc generator; own DBC reader vs reference layout + geometry; cantools decodes every reference-packed boundary frame",
            "cantools is the independent decoder; big-endian only on byte-aligned 8/16/32/64-bit fields", "explicit-state enumeration against a reference layout + independent decoder"),
    "C06": ("every flat CAN message of 1..3 signals (4 in thorough) over {u/i 1,5,8,12,16,24,32,33,64, f32, f64, enums} <= 64 bits + directed 5..8-signal messages through the real fcp_can_c generator, gcc, generated main(): frame id/dlc/data == reference packing, decode(encode(v)) == v",
            "gcc 12; NaN/infinities excluded (no portable literal), -0.0 compared bit for bit; a naming family (device/message/binding/enum/signal names of every casing, two devices with interleaved declarations, leading underscores, frame ids at and beyond 11 bits)", "explicit-state enumeration of generator inputs, compiled and executed against a reference model"),
    "C13": ("C03's struct space in the same harness: the reflection binary produced by the Python tool is loaded with LoadBinarySchema and the dynamic codec's bytes/values are compared with the static codec's for every boundary value; LoadBinarySchema histories on one object (older revision then newer); enum numbers without enumerator",
            "enumerator values stay below 2^31 (the reflection record's slot, open C12 finding); a run-time schema that does not compile is a violation, not a skip", "explicit-state enumeration, differential oracle (static vs dynamic codec)"),
    "C14": ("CAN bindings of every size 57..72, 80, 96, 128, 200 bits with the excess in a scalar, nested struct, array, array of structs or enum at first/middle/last position, every placement of a str/dynamic array/optional, odd big-endian placements behind multiplexing relations, multiplexed signals behind a leading selector at the end of messages of 64..72 bits, oversize structs bound to a protocol spelled CAN/Can/cAN, and enums at the edges of their width (single-valued, 2^49, 2^53, 2^63); DBC generate and the can_c generation command must fail and emit nothing for > 64 bits / variable size; geometry of everything emitted",
            "an exception counts as failing with an error", "explicit-state enumeration around the size limit + geometric invariant on emitted artefacts"),
    "C15": ("every struct with 2-3 fields (4 in thorough; directed 4- and 5-field bases, sparse and dense ids 0..n-1) over representative kinds x EVERY permutation of the declaration order (ids fixed) compared with its id-sorted twin in all back ends: Python codec, packed layout, DBC, generated C frames (gcc), C++ static and dynamic bytes",
            "CAN back ends on the fixed-size subset <= 64 bits", "exhaustive permutation enumeration, differential oracle"),
    "C18": ("schemas with 1..4 CAN bindings (payloads 1,7,8,9,33,64 bits, mixed and beyond 8 bytes (72 bits, strings), bus names beyond the 4-byte tag (under ASan), the generator's headers in another include order, ids {0,1,100,2047}, bus names of length 1..4, prefix-related buses, long names, bindings of other protocols that carry id and bus, unknown-frame probes with identifier bits above 0x7FF) through Can{CanStaticSchema} and Can{CanDynamicSchema}: encode == reference frame; decode of every frame and of every frame with the id or one bus character changed",
            "bindings named after their struct", "explicit-state enumeration of schemas x frames against a reference frame, static/dynamic differential"),
    "C19": ("for every device (1..3 messages, 4 in thorough; periods from {absent,-1,0,1,2,3,5}, plus devices with periods 2^31, 2^32-1, 2^32, 2^32+10) EVERY call history of length 5 (7 for selected devices in thorough) over the delta alphabet {0,1,P-1,P,P+1,2P,wrap} on the generated C scheduler, one forked process per history; two devices linked into one program (declared grouped and interleaved) called with the same timestamps in every order pattern; oracle: reference automaton + independent trace invariant + frame contents",
            "gcc 12; 32-bit wrap exercised through deltas 2^32-3 and a start at 2^32-2", "exhaustive exploration of call histories of the real compiled code (fork per history) against a reference automaton"),
})
PENDING = {}

m = {
    "version": 1,
    "setup_cmd": "true",
    "hooks": {
        "guard": "FCP_CORE_VERIF",
        "enable": "no source hooks are needed: every check drives public entry points of /repo's working tree (fault injection goes through Verifier.register, scratch directories and fork)",
        "baseline_off_cmd": "cd /repo && /venv/bin/python -m pytest -ra -q -p no:cacheprovider --timeout=900 --continue-on-collection-errors",
        "source_commits": [],
        "add_only": True,
    },
    "engines": [{"name": "fcpmc", "path": "/verif/fcpmc", "serves_properties": sorted(CHECKS), "kind_free_text": "hand-written explicit-state explorer (BFS over construction productions with canonical deduplication, fork-snapshot exploration of history spaces); every state is executed on the real code from /repo's working tree against a reference model or a differential oracle"}],
    "checks": [],
    "not_applicable": [],
    "notes": "All checks: ./run <id> quick|thorough. Known findings: known_findings.json (never written at run time). Fix commits in /repo start with 'fix:'.",
}
for p in PROPS:
    if p in CHECKS:
        text, note, tech = CHECKS[p]
        m["checks"].append({
            "property_id": p, "quick_cmd": "./run %s quick" % p, "thorough_cmd": "./run %s thorough" % p,
            "evidence_file": "/verif/evidence/%s.json" % p, "replay_cmd_template": "./run replay {path}", "engine": "fcpmc",
            "level_claimed": {"category": "model_checking", "text": text, "design_ref": "DESIGN.md section 3, " + p},
            "level_note": note, "technique": tech,
        })
    else:
        m["not_applicable"].append({"property_id": p, "reason": PENDING.get(p, "not claimed yet: the check for this property is still under construction (see DESIGN.md section 3 for the plan)")})
json.dump(m, open(os.path.join(HERE, "MANIFEST.json"), "w"), indent=1)
print("checks:", len(m["checks"]), "not_applicable:", len(m["not_applicable"]))
