#!/usr/bin/env python3
"""Regenerate MANIFEST.json from the table below (kept in one place so it stays consistent)."""
import json, os

HERE = os.path.dirname(os.path.dirname(os.path.abspath(__file__)))
PROPS = [json.loads(l)["id"] for l in open(os.path.join(HERE, "properties.jsonl"))]

CHECKS = {
    "C01": ("bounded-exhaustive exploration of the real parser + serde: every (alignment context, type tree) struct shape up to constructor depth 2 (thorough 3), every bit offset, widths 1..64 (thorough), every boundary-value combination; oracle decode(encode(v)) == v bit-for-bit",
            "exhaustive only inside the stated alphabets (boundary values, 7-bit strings, <=3 fields of the enumerated kinds); CPython, lark, pyserde trusted",
            "explicit-state enumeration of schema shapes x boundary values executed on the implementation"),
    "C02": ("same state space as C01; oracle is a reference wire codec (bound to the 26 project vectors at the start of every run): serde.encode(v) == canonical bytes and serde.decode(canonical bytes) == v",
            "reference codec fcpmc/refcodec.py is the specification of the canonical format; pinned by the project's vectors and (C03) by the generated C++ codec",
            "explicit-state enumeration against a reference model validated on project vectors"),
    "C04": ("every fixed-size struct shape (1..3 fields, thorough 4) x every field-id permutation x unroll flag laid out by the real PackedEncoder against a reference layout and the model-free tiling invariant; every generate() history up to length 3 (4) on one live encoder by fork-snapshot",
            "reference layout fcpmc/reflayout.py; option on an array field only judged on exact leaf-name matches",
            "explicit-state enumeration + fork-snapshot history exploration"),
    "C07": ("every schema description of a small scope (all grammar productions, nested types to depth 2/3, every extension value form, lexer-colliding identifiers in every slot) x every formatting variant parsed by the real front end; oracle: independently built expected tree and cross-variant equality",
            "expected-tree builder bound to the repository's golden JSON files", "explicit-state enumeration of descriptions x formatting variants"),
    "C08": ("every placement of a referenced declaration (before/after/self/undeclared/imported before/after/nested/dotted) x every wrapper chain x interleaved unrelated declarations, module cases on a real file tree; oracle: resolution spec",
            "duplicate type names are C09's subject", "explicit-state enumeration against a resolution specification"),
    "C09": ("all schema trees of per-rule sub-scopes built through the constructors x 3 check-set configurations x every permutation of the declaration lists; oracle: three-valued reference predicate + permutation invariance",
            "statement-silent cases (non-CAN binding > 64 bits under the C check set) accept either verdict", "small-scope exhaustive enumeration against a reference predicate"),
    "C10": ("for each generator every check evaluation of the verification run is made to fail in turn (fault enumeration through Verifier.register) x pre-existing directory states; rule-violating schemas; accepted runs vs the plug-in's returned files; generate() histories by fork-snapshot; CLI",
            "an exception counts as an error report; deletions by a plug-in's own generate() on accepted schemas are not judged", "exhaustive fault-point enumeration + history exploration with directory snapshots"),
    "C11": ("every prefix of every corpus text, every single-token mutation at every token position, every token string up to length 4/5 over two 12-token alphabets, every literal slot x value form, and the same inside an imported module; oracle: no exception, Ok or renderable Err, cited lines exist",
            "termination decided within a 10 s alarm per input", "exhaustive enumeration of input families on the real parser"),
    "C12": ("C07's description space reflected, compared with the record computed from the description, serialized with the built-in reflection schema and decoded back",
            "expected record builder fcpmc/reftree.py", "explicit-state enumeration against a reference model + round trip"),
    "C16": ("every byte truncation point of every canonical encoding of the C01 shape/value space and every length prefix replaced by {n+1,n+2,255,65536,2^31,2^32-1}; decode must raise whenever the reference decoder runs out of bits, inside a deterministic step budget linear in the input",
            "step budget counted with sys.setprofile (calls), no wall clock; termination is a bounded statement", "exhaustive fault-point enumeration (truncation, corrupted length prefixes)"),
    "C17": ("every (generator, schema) under 4/16 hash seeds in fresh processes compared file by file; every history over {parse(s), gen(g,s)} up to depth 3/4 in one process by fork-snapshot, each gen node compared with the fresh-process reference",
            "only the documented stamp line is masked", "configuration enumeration + fork-snapshot history exploration"),
    "C20": ("every closed assignment of a base schema's declarations to {main, m1, m2} x topology star/chain x path depth x mod position on a real file tree vs the single-file parse; every injected module error must be an Err naming the module",
            "cross-file declaration order is not judged, only per-category multisets", "exhaustive enumeration of module splits, differential oracle"),
}
PENDING = {}

m = {
    "version": 1,
    "setup_cmd": "true",
    "hooks": {
        "guard": "FCP_CORE_VERIF",
        "enable": "no source hooks are needed: every check drives public entry points of /repo's working tree (fault injection goes through Verifier.register, scratch directories and fork)",
        "baseline_off_cmd": "cd /repo && /venv/bin/python -m pytest -ra -q -p no:cacheprovider --timeout=900 --continue-on-collection-errors",
        "source_commits": [],
        "add_only": True,
    },
    "engines": [{"name": "fcpmc", "path": "/verif/fcpmc", "serves_properties": sorted(CHECKS), "kind_free_text": "hand-written explicit-state explorer (BFS over construction productions with canonical deduplication, fork-snapshot exploration of history spaces); every state is executed on the real code from /repo's working tree against a reference model or a differential oracle"}],
    "checks": [],
    "not_applicable": [],
    "notes": "All checks: ./run <id> quick|thorough. Known findings: known_findings.json (never written at run time). Fix commits in /repo start with 'fix:'.",
}
for p in PROPS:
    if p in CHECKS:
        text, note, tech = CHECKS[p]
        m["checks"].append({
            "property_id": p, "quick_cmd": "./run %s quick" % p, "thorough_cmd": "./run %s thorough" % p,
            "evidence_file": "/verif/evidence/%s.json" % p, "replay_cmd_template": "./run replay {path}", "engine": "fcpmc",
            "level_claimed": {"category": "model_checking", "text": text, "design_ref": "DESIGN.md section 3, " + p},
            "level_note": note, "technique": tech,
        })
    else:
        m["not_applicable"].append({"property_id": p, "reason": PENDING.get(p, "not claimed yet: the check for this property is still under construction (see DESIGN.md section 3 for the plan)")})
json.dump(m, open(os.path.join(HERE, "MANIFEST.json"), "w"), indent=1)
print("checks:", len(m["checks"]), "not_applicable:", len(m["not_applicable"]))
