#!/usr/bin/env python3
"""Systematic first-order mutation sweep (development aid, not a registered check).

For every mutation site of the anchored source files: apply it in a scratch worktree of /repo,
keep the mutant only if it still imports and the pinned test suite still passes, then run the
quick tier of the checks mapped to that file (FCPMC_REPO=<worktree>) and record whether at
least one of them reports a violation.  Survivors are either equivalent mutants or blind spots.

usage: tools/mutsweep.py <out.jsonl> [--files a,b] [--stride N] [--limit N]
"""
import json
import os
import re
import subprocess
import sys
import time

REPO = os.environ.get("MUT_REPO", "/repo")
VERIF = os.path.dirname(os.path.dirname(os.path.abspath(__file__)))

TARGETS = {
    "src/fcp/serde.py": ["C02", "C01", "C16"],
    "src/fcp/encoding.py": ["C04", "C05"],
    "src/fcp/specs/enum.py": ["C04", "C02"],
    "src/fcp/specs/v2.py": ["C20", "C07", "C12"],
    "src/fcp/specs/type.py": ["C12", "C04"],
    "src/fcp/specs/impl.py": ["C12", "C04", "C07"],
    "src/fcp/verifier.py": ["C09", "C10"],
    "src/fcp/codegen.py": ["C10"],
    "src/fcp/parser.py": ["C07", "C08", "C20", "C11"],
    "src/fcp/error.py": ["C11"],
    "plugins/fcp_dbc/fcp_dbc/dbc_writer.py": ["C05", "C14"],
    "plugins/fcp_dbc/fcp_dbc/generator.py": ["C09", "C10"],
    "plugins/fcp_can_c/fcp_can_c/generator.py": ["C14", "C09"],
    "plugins/fcp_can_c/fcp_can_c/can_c_writer.py": ["C06", "C19"],
    "plugins/fcp_can_c/templates/can_device_c.jinja": ["C19", "C06"],
    "plugins/fcp_can_c/templates/can_signal_parser.c": ["C06"],
    "plugins/fcp_cpp/fcp_cpp/generator.py": ["C03"],
    "plugins/fcp_cpp/fcp_cpp/rpc.py": ["C03", "C17"],
    "plugins/fcp_cpp/fcp_cpp/buffer.h": ["C03", "C13"],
    "plugins/fcp_cpp/fcp_cpp/decoders.h": ["C03"],
    "plugins/fcp_cpp/fcp_cpp/fcp.h.j2": ["C03", "C15"],
    "plugins/fcp_cpp/fcp_cpp/dynamic.h.j2": ["C13"],
    "plugins/fcp_cpp/fcp_cpp/can_static_schema.h": ["C18"],
    "plugins/fcp_cpp/fcp_cpp/can_dynamic_schema.h": ["C18"],
}

OPS = [
    (r"(?<![<>=!])>=(?!=)", ">"),
    (r"(?<![<>=!-])>(?![=>])", ">="),
    (r"(?<![<>=!])<=(?!=)", "<"),
    (r"(?<![<>=!])<(?![=<])", "<="),
    (r"==", "!="),
    (r"!=", "=="),
    (r"\band\b", "or"),
    (r"\bor\b", "and"),
    (r"&&", "||"),
    (r"\|\|", "&&"),
    (r"\+ 1\b", "+ 2"),
    (r"- 1\b", "- 2"),
    (r"\+ 7\b", "+ 8"),
    (r"\b64\b", "63"),
    (r"\b64\b", "65"),
    (r"\b32\b", "31"),
    (r"\b8\b", "7"),
    (r"\b8\b", "9"),
    (r"\b4\b", "3"),
    (r"\b0\b", "1"),
    (r"\b1\b", "0"),
    (r"\bTrue\b", "False"),
    (r"\bFalse\b", "True"),
    (r"\btrue\b", "false"),
    (r"\bfalse\b", "true"),
    (r"\bnot ", ""),
    (r"is_some\(\)", "is_nothing()"),
    (r"is_nothing\(\)", "is_some()"),
    (r"\.attempt\(\)", ""),
    (r"sorted\(([^,()]+(?:\([^()]*\))?[^,()]*), key=[^)]*\)\)?", None),  # handled specially: drop the sort
    (r"\+=", "-="),
    (r">> ", "<< "),
    (r"<< ", ">> "),
    (r"\bmax\(", "min("),
    (r"\bceil\(", "floor("),
    (r"// 8", "// 7"),
    (r"\.append\(", ".insert(0, "),
    (r"\bcontinue\b", "break"),
    (r"\bbreak\b", "continue"),
]


def skip_line(path, line):
    s = line.strip()
    if not s or s.startswith(("#", "//", "*", "/*", '"""', "'''", "import ", "from ", "@", "{#")):
        return True
    if path.endswith(".py") and (s.startswith(('"', "'")) or "logging." in s or s.startswith("raise ") and "Error(" in s and "f\"" in s):
        return True
    if "license" in s.lower() or "copyright" in s.lower():
        return True
    return False


def sites(path, text):
    out = []
    lines = text.split("\n")
    in_doc = False
    for ln, line in enumerate(lines):
        if path.endswith(".py") and line.count('"""') % 2 == 1:
            in_doc = not in_doc
            continue
        if in_doc or skip_line(path, line):
            continue
        code = line
        if path.endswith(".py"):
            code = re.sub(r'("[^"]*"|\'[^\']*\')', lambda m: " " * len(m.group(0)), line)  # do not mutate inside string literals
        for oi, (pat, rep) in enumerate(OPS):
            for m in re.finditer(pat, code):
                if rep is None:
                    new = line[: m.start()] + "list(" + m.group(1) + ")" + line[m.end():]
                else:
                    new = line[: m.start()] + rep + line[m.end():]
                if new != line:
                    out.append((ln, oi, m.start(), new))
    # statement deletion for simple python statements
    if path.endswith(".py"):
        for ln, line in enumerate(lines):
            s = line.strip()
            if re.match(r"^(self\.\w+|\w+)(\[[^\]]*\])? (=|\+=|-=) ", s) and not s.endswith(("(", "[", "{", ",")) and not in_doc:
                indent = line[: len(line) - len(line.lstrip())]
                out.append((ln, 99, 0, indent + "pass"))
    return out


def sh(cmd, **kw):
    return subprocess.run(cmd, stdout=subprocess.PIPE, stderr=subprocess.STDOUT, text=True, **kw)


def main():
    out_path = sys.argv[1]
    files = None
    stride = 1
    limit = None
    args = sys.argv[2:]
    while args:
        a = args.pop(0)
        if a == "--files":
            files = args.pop(0).split(",")
        elif a == "--stride":
            stride = int(args.pop(0))
        elif a == "--limit":
            limit = int(args.pop(0))
    wt = "/tmp/mutsweep-wt-%d" % os.getpid()
    sh(["git", "-C", REPO, "worktree", "remove", "--force", wt])
    r = sh(["git", "-C", REPO, "worktree", "add", "-q", "--detach", wt, "HEAD"])
    assert r.returncode == 0, r.stdout
    done = set()
    if os.path.exists(out_path):
        for l in open(out_path):
            d = json.loads(l)
            done.add((d["file"], d["line"], d["op"], d["col"]))
    n = 0
    try:
        with open(out_path, "a") as out:
            for path in sorted(TARGETS):
                if files and not any(f in path for f in files):
                    continue
                text = open(os.path.join(wt, path)).read()
                all_sites = sites(path, text)
                for k, (ln, oi, col, new) in enumerate(all_sites):
                    if k % stride:
                        continue
                    if (path, ln + 1, oi, col) in done:
                        continue
                    if limit is not None and n >= limit:
                        return
                    n += 1
                    lines = text.split("\n")
                    old = lines[ln]
                    lines[ln] = new
                    with open(os.path.join(wt, path), "w") as f:
                        f.write("\n".join(lines))
                    rec = {"file": path, "line": ln + 1, "op": oi, "col": col, "old": old.strip(), "new": new.strip()}
                    t0 = time.time()
                    try:
                        if path.endswith(".py"):
                            c = sh(["/venv/bin/python", "-m", "py_compile", os.path.join(wt, path)])
                            if c.returncode != 0:
                                rec["status"] = "does-not-compile"
                                continue
                        b = sh([os.path.join(VERIF, "tools", "baseline.py"), wt], timeout=1200)
                        sh(["rm", "-rf", os.path.join(wt, ".hypothesis", "examples")])
                        if b.returncode != 0:
                            rec["status"] = "killed-by-suite"
                            continue
                        rec["status"] = "survived"
                        rec["checks"] = {}
                        for chk in TARGETS[path]:
                            env = dict(os.environ, FCPMC_REPO=wt, FCPMC_OUT="/tmp/mutsweep-out-%d" % os.getpid())
                            try:
                                c = sh([os.path.join(VERIF, "run"), chk, "quick"], env=env, timeout=1500)
                                rc = c.returncode
                                cls = re.search(r"class=(\S+)", c.stdout)
                            except subprocess.TimeoutExpired:
                                rc, cls = 124, None
                            rec["checks"][chk] = {"rc": rc, "class": cls.group(1) if cls else None}
                            if rc != 0:
                                rec["status"] = "detected"
                                rec["by"] = chk
                                break
                    finally:
                        rec["secs"] = round(time.time() - t0, 1)
                        out.write(json.dumps(rec) + "\n")
                        out.flush()
                        with open(os.path.join(wt, path), "w") as f:
                            f.write(text)
    finally:
        sh(["git", "-C", REPO, "worktree", "remove", "--force", wt])
        sh(["rm", "-rf", "/tmp/mutsweep-out-%d" % os.getpid()])


if __name__ == "__main__":
    main()
